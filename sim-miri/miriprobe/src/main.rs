//! Miri probe: one lelwel run under a Miri seed (which decides every RandomState and address choice).
#[path = "/verif/sim/detsim/src/probe.rs"]
mod probe;
fn main() {
    let args: Vec<String> = std::env::args().collect();
    let source = std::fs::read_to_string(&args[1]).expect("read grammar");
    let d = probe::analyse(&source, "g.llw", Some(std::path::Path::new(&args[2])));
    print!("{}", d.full_text());
}
