#!/bin/sh
# Build the framework from files on disk only (offline).
set -e
cd "$(dirname "$0")"
export CARGO_NET_OFFLINE=true
[ -f sim/Cargo.lock ] || cp /repo/Cargo.lock sim/Cargo.lock
(cd sim && cargo build --release --offline 2>&1 | tail -3)
