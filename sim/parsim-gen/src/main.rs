//! parsim-gen — builds the parser farm: workload grammars (repository corpus + seeded random
//! grammars from a typed model), filtered by lelwel itself and by the domain filters, run through
//! the real front end + RustOutput, and wrapped with the adversary/monitor glue.
//!
//!   parsim-gen farm <dir> <tier> <seed>          corpus + random grammars
//!   parsim-gen single <dir> <grammar-text-file>  a one-grammar farm (replay)
//!   parsim-gen extra <dir> <tier> <seed> <file>  like farm, plus the grammars listed in <file> (JSON array of texts)

use lelwel::frontend::ast::{self, AstNode, Named};
use parsim_rt::model::*;
use parsim_rt::rt::{CbKind, CbMeta, Meta, Role};
use serde_json::json;
use std::collections::{BTreeMap, BTreeSet};
use std::path::{Path, PathBuf};
use vcore::Rng;

// ------------------------------------------------------------------------------------------
// lelwel AST -> model

fn unquote(s: &str) -> String {
    s[1..s.len() - 1].to_string()
}

struct Conv<'a> {
    cst: &'a lelwel::frontend::parser::Cst<'a>,
    tok_by_name: BTreeMap<String, usize>,
    tok_by_sym: BTreeMap<String, usize>,
    rule_by_name: BTreeMap<String, usize>,
}
impl Conv<'_> {
    fn rx(&self, r: ast::Regex) -> Option<Rx> {
        use ast::Regex as R;
        let cst = self.cst;
        Some(match r {
            R::Name(n) => {
                let (name, _) = n.value(cst)?;
                if let Some(t) = self.tok_by_name.get(name) {
                    Rx::Tok(*t)
                } else {
                    Rx::Rule(*self.rule_by_name.get(name)?)
                }
            }
            R::Symbol(s) => Rx::Sym(*self.tok_by_sym.get(&unquote(s.value(cst)?.0))?),
            R::Concat(c) => Rx::Seq(c.operands(cst).map(|x| self.rx(x)).collect::<Option<Vec<_>>>()?),
            R::Alternation(c) => Rx::Alt(c.operands(cst).map(|x| self.rx(x)).collect::<Option<Vec<_>>>()?),
            R::OrderedChoice(c) => Rx::Choice(c.operands(cst).map(|x| self.rx(x)).collect::<Option<Vec<_>>>()?),
            R::Paren(p) => match p.inner(cst) {
                Some(i) => Rx::Paren(Box::new(self.rx(i)?)),
                None => Rx::Empty,
            },
            R::Optional(p) => Rx::Opt(Box::new(self.rx(p.operand(cst)?)?)),
            R::Star(p) => Rx::Star(Box::new(self.rx(p.operand(cst)?)?)),
            R::Plus(p) => Rx::Plus(Box::new(self.rx(p.operand(cst)?)?)),
            R::Predicate(p) => Rx::Pred(p.value(cst)?.0[1..].to_string()),
            R::Action(p) => Rx::Action(p.value(cst)?.0[1..].to_string()),
            R::Assertion(p) => Rx::Assert(p.value(cst)?.0[1..].to_string()),
            R::NodeRename(p) => Rx::Rename(p.value(cst)?.0[1..].to_string()),
            R::NodeElision(_) => Rx::Elide,
            R::NodeMarker(p) => Rx::Marker(p.number(cst).to_string()),
            R::NodeCreation(p) => Rx::Create { num: p.number(cst).map(|s| s.to_string()), name: p.node_name(cst).map(|s| s.to_string()) },
            R::Commit(_) => Rx::Commit,
            R::Return(_) => Rx::Return,
        })
    }
}

struct Accepted {
    model: GModel,
    generated: String,
    warnings: usize,
}

/// Run the real front end; None unless lelwel accepts the grammar without an error diagnostic.
fn accept(text: &str, scratch: &Path) -> Result<Accepted, String> {
    use codespan_reporting::diagnostic::Severity;
    let mut diags = vec![];
    let cst = lelwel::frontend::parser::Parser::new(text, &mut diags).parse(&mut diags);
    if diags.iter().any(|d| d.severity == Severity::Error) {
        return Err("syntax".into());
    }
    let sema = lelwel::frontend::sema::SemanticPass::run(&cst, &mut diags);
    if let Some(d) = diags.iter().find(|d| d.severity == Severity::Error) {
        return Err(d.code.clone().unwrap_or_else(|| "error".into()));
    }
    let file = ast::File::cast(&cst, lelwel::frontend::parser::NodeRef::ROOT).ok_or("no file")?;
    let mut tokens = vec![];
    let mut tok_by_name = BTreeMap::new();
    let mut tok_by_sym = BTreeMap::new();
    for t in file.token_decls(&cst) {
        let name = t.name(&cst).ok_or("token without name")?.0.to_string();
        let symbol = t.symbol(&cst).map(|(s, _)| unquote(s));
        tok_by_name.insert(name.clone(), tokens.len());
        if let Some(s) = &symbol {
            tok_by_sym.insert(s.clone(), tokens.len());
        }
        tokens.push(TokM { name, symbol, skipped: false, right: false });
    }
    let lookup = |n: &str| -> Option<usize> {
        if n.starts_with('\'') {
            tok_by_sym.get(&unquote(n)).copied()
        } else {
            tok_by_name.get(n).copied()
        }
    };
    for d in file.skip_decls(&cst) {
        let mut v = vec![];
        d.token_names(&cst, |(n, _)| v.push(n.to_string()));
        for n in v {
            tokens[lookup(&n).ok_or("skip of unknown token")?].skipped = true;
        }
    }
    for d in file.right_decls(&cst) {
        let mut v = vec![];
        d.token_names(&cst, |(n, _)| v.push(n.to_string()));
        for n in v {
            tokens[lookup(&n).ok_or("right of unknown token")?].right = true;
        }
    }
    let mut rule_by_name = BTreeMap::new();
    let decls: Vec<ast::RuleDecl> = file.rule_decls(&cst).collect();
    for (i, r) in decls.iter().enumerate() {
        rule_by_name.insert(r.name(&cst).ok_or("rule without name")?.0.to_string(), i);
    }
    let conv = Conv { cst: &cst, tok_by_name: tok_by_name.clone(), tok_by_sym: tok_by_sym.clone(), rule_by_name: rule_by_name.clone() };
    let mut rules = vec![];
    for r in &decls {
        let body = match r.regex(&cst) {
            Some(x) => Some(conv.rx(x).ok_or("regex conversion")?),
            None => None,
        };
        rules.push(RuleM { name: r.name(&cst).unwrap().0.to_string(), elided: r.is_elided(&cst), body });
    }
    let start = file.start_decls(&cst).next().and_then(|s| s.rule_name(&cst)).and_then(|(n, _)| rule_by_name.get(n).copied()).ok_or("no start")?;
    let mut parts = vec![];
    for d in file.part_decls(&cst) {
        let mut v = vec![];
        d.rule_names(&cst, |(n, _)| v.push(n.to_string()));
        for n in v {
            parts.push(*rule_by_name.get(&n).ok_or("part of unknown rule")?);
        }
    }
    // parts in the order lelwel emits them (BTreeSet<RuleDecl> = declaration order of the rules)
    parts.sort();
    parts.dedup();
    let model = GModel { tokens, rules, start, parts };
    // generated.rs through the real back end
    let _ = std::fs::remove_dir_all(scratch);
    std::fs::create_dir_all(scratch.join("out")).map_err(|e| e.to_string())?;
    let input = scratch.join("g.llw");
    std::fs::write(&input, text).map_err(|e| e.to_string())?;
    std::fs::write(scratch.join("parser.rs"), "// placeholder so that no skeleton is written\n").map_err(|e| e.to_string())?;
    lelwel::backend::rust::RustOutput::run(&cst, &sema, &input, &scratch.join("out")).map_err(|e| e.to_string())?;
    let generated = std::fs::read_to_string(scratch.join("out").join("generated.rs")).map_err(|e| e.to_string())?;
    let warnings = diags.iter().filter(|d| d.severity == Severity::Warning).count();
    Ok(Accepted { model, generated, warnings })
}

use parsim_rt::gen::random_grammar;

// ------------------------------------------------------------------------------------------
// glue emission

fn pascal(name: &str) -> String {
    lelwel::backend::rust::snake_to_pascal_case(name)
}

struct FarmGrammar {
    meta: Meta,
    generated: String,
}

fn probe_role(num: &str) -> Role {
    let b = num.as_bytes();
    if b.len() == 3 && b[0] == b'9' && b.iter().all(|c| c.is_ascii_digit()) {
        let c = b[1] - b'0';
        let k = b[2] - b'0';
        match k {
            0 => Role::Before(c),
            9 => Role::After(c),
            k => Role::Alt(c, k),
        }
    } else {
        Role::None
    }
}

fn build_meta(name: &str, origin: &str, text: &str, acc: &Accepted, probes: bool) -> Result<Meta, String> {
    let model = &acc.model;
    let gen = &acc.generated;
    // Token enum order: EOF, EOF<Part>..., Error, declared tokens
    let mut token_names = vec!["EOF".to_string()];
    let mut entries = vec![("parse".to_string(), model.start, 0u16)];
    for p in &model.parts {
        token_names.push(format!("EOF{}", pascal(&model.rules[*p].name)));
        entries.push((format!("parse_{}", model.rules[*p].name), *p, (token_names.len() - 1) as u16));
    }
    token_names.push("Error".to_string());
    let tok_error = (token_names.len() - 1) as u16;
    let tok_base = token_names.len() as u16;
    for t in &model.tokens {
        token_names.push(t.name.clone());
    }
    // Rule enum: read it back from the generated code
    let enum_start = gen.find("pub enum Rule {").ok_or("no Rule enum")?;
    let enum_body = &gen[enum_start + "pub enum Rule {".len()..];
    let enum_body = &enum_body[..enum_body.find('}').ok_or("Rule enum not closed")?];
    let rule_variants: Vec<String> = enum_body.split(',').map(|s| s.trim().to_string()).filter(|s| !s.is_empty()).collect();
    // node names by variant: from the Debug impl `Rule::Variant => write!(f, "name"),`
    let mut rule_names = vec![];
    for v in &rule_variants {
        let pat = format!("Rule::{v} => write!(f, \"");
        let at = gen.find(&pat).ok_or(format!("no Debug arm for {v}"))?;
        let rest = &gen[at + pat.len()..];
        rule_names.push(rest[..rest.find('"').unwrap()].to_string());
    }
    // callbacks: read the trait back
    let trait_at = gen.find("pub trait ParserCallbacks<'a>").ok_or("no trait")?;
    let tr = &gen[trait_at..];
    let mut callbacks = vec![];
    for line in tr.lines() {
        let l = line.trim();
        let Some(rest) = l.strip_prefix("fn ") else { continue };
        let fname = rest.split('(').next().unwrap_or("");
        let kind_of = |n: &str| rule_names.iter().position(|r| r == n).map(|i| i as u16);
        if let Some(n) = fname.strip_prefix("create_node_") {
            callbacks.push(CbMeta { kind: CbKind::Create, name: n.to_string(), num: String::new(), node_kind: kind_of(n).ok_or(format!("unknown node {n}"))?, role: Role::None });
        } else if let Some(n) = fname.strip_prefix("delete_node_") {
            callbacks.push(CbMeta { kind: CbKind::Delete, name: n.to_string(), num: String::new(), node_kind: kind_of(n).ok_or(format!("unknown node {n}"))?, role: Role::None });
        } else {
            for (pre, kind) in [("predicate_", CbKind::Pred), ("action_", CbKind::Action), ("assertion_", CbKind::Assert)] {
                if let Some(n) = fname.strip_prefix(pre) {
                    if n == "skip" && kind == CbKind::Pred {
                        continue;
                    }
                    let (rule, num) = n.rsplit_once('_').ok_or("callback name")?;
                    let role = if kind == CbKind::Assert && probes { probe_role(num) } else { Role::None };
                    callbacks.push(CbMeta { kind, name: rule.to_string(), num: num.to_string(), node_kind: 0, role });
                }
            }
        }
    }
    Ok(Meta {
        name: name.to_string(),
        origin: origin.to_string(),
        text: text.to_string(),
        model: model.clone(),
        tok_base,
        tok_error,
        token_names,
        rule_names,
        callbacks,
        entries,
        total_domain: model.all_productive() && model.consumes_on_every_cycle(),
        has_choice: model.has_choice(),
        has_probes: probes && model.has_choice(),
        shape_tags: {
            let mut t = vec![];
            if model.undoable_creation_at_outer_mark() {
                t.push("undo_of_node_creation_at_outer_mark".to_string());
            }
            if model.creation_makes_later_mark_stale() {
                t.push("node_creation_makes_later_mark_stale".to_string());
            }
            if model.return_without_consumption_in_loop() {
                t.push("return_without_consumption_in_loop".to_string());
            }
            t
        },
    })
}

fn glue(idx: usize, meta: &Meta) -> String {
    let mut s = String::new();
    s.push_str("#![allow(dead_code, unused_variables, unused_mut, unused_imports, unreachable_patterns, unreachable_code, clippy::all)]\n");
    s.push_str("use parsim_rt::rt;\n");
    s.push_str("#[derive(Copy, Clone, Debug, PartialEq, Eq)]\n#[repr(u16)]\npub enum Token {\n");
    for t in &meta.token_names {
        s.push_str(&format!("    {t},\n"));
    }
    s.push_str("}\n");
    s.push_str(&format!("const TOKS: [Token; {}] = [{}];\n", meta.token_names.len(), meta.token_names.iter().map(|t| format!("Token::{t}")).collect::<Vec<_>>().join(", ")));
    s.push_str("pub type Diagnostic = rt::Diag;\n");
    s.push_str(&format!("include!(\"g{idx}.generated.rs\");\n"));
    s.push_str("impl<'a> ParserCallbacks<'a> for Parser<'a> {\n    type Diagnostic = rt::Diag;\n    type Context = rt::Sim;\n");
    s.push_str("    fn create_tokens(context: &mut Self::Context, _source: &'a str, _diags: &mut Vec<Self::Diagnostic>) -> (Vec<Token>, Vec<Span>) {\n        (context.case_tokens().iter().map(|t| TOKS[*t as usize]).collect(), context.case_spans())\n    }\n");
    s.push_str("    fn create_diagnostic(&self, span: Span, message: String) -> Self::Diagnostic { rt::on_diag(self, span, message) }\n");
    s.push_str("    fn predicate_skip(&self, token: Token) -> bool { rt::on_skip(self, token as u16) }\n");
    for (i, c) in meta.callbacks.iter().enumerate() {
        match c.kind {
            CbKind::Create => s.push_str(&format!("    fn create_node_{}(&mut self, node_ref: NodeRef, diags: &mut Vec<Self::Diagnostic>) {{ rt::on_create(&*self, {i}, node_ref.0, diags) }}\n", c.name)),
            CbKind::Delete => s.push_str(&format!("    fn delete_node_{}(&mut self, node_ref: NodeRef) {{ rt::on_delete(&*self, {i}, node_ref.0) }}\n", c.name)),
            CbKind::Pred => s.push_str(&format!("    fn predicate_{}_{}(&self) -> bool {{ rt::on_predicate(self, {i}) }}\n", c.name, c.num)),
            CbKind::Action => s.push_str(&format!("    fn action_{}_{}(&mut self, diags: &mut Vec<Self::Diagnostic>) {{ rt::on_action(&*self, {i}, diags) }}\n", c.name, c.num)),
            CbKind::Assert => s.push_str(&format!("    fn assertion_{}_{}(&self) -> Option<Self::Diagnostic> {{ rt::on_assertion(self, {i}) }}\n", c.name, c.num)),
        }
    }
    s.push_str("}\n");
    s.push_str(
        "fn nodev(n: &Node) -> rt::NodeV {\n    match n {\n        Node::Rule(r, off) => rt::NodeV::Rule(*r as u16, usize::from(*off)),\n        Node::Token(t, idx) => rt::NodeV::Token(*t as u16, usize::from(*idx)),\n    }\n}\n",
    );
    s.push_str(
        "impl<'a> rt::PView for Parser<'a> {\n    fn sim(&self) -> &rt::Sim { &self.context }\n    fn pos(&self) -> usize { self.pos }\n    fn current(&self) -> u16 { self.current as u16 }\n    fn nodes(&self) -> Vec<rt::NodeV> { self.cst.data.nodes.iter().map(nodev).collect() }\n    fn token_count(&self) -> usize { self.cst.data.token_count }\n    fn non_skip_len(&self) -> usize { self.cst.data.non_skip_len }\n    fn error_node(&self) -> Option<usize> { self.error_node.map(|m| m.0) }\n    fn error_since_advance(&self) -> bool { self.error_since_advance }\n    fn in_ordered_choice(&self) -> bool { self.in_ordered_choice }\n    fn peek(&self, k: usize) -> u16 { Parser::peek(self, k) as u16 }\n    fn peek_left(&self, k: usize) -> u16 { Parser::peek_left(self, k) as u16 }\n}\n",
    );
    s.push_str(
        "struct TreeView<'c, 'a>(&'c Cst<'a>);\nimpl rt::CView for TreeView<'_, '_> {\n    fn children(&self, n: usize) -> Vec<usize> { self.0.children(NodeRef(n)).map(|r| r.0).collect() }\n    fn get(&self, n: usize) -> rt::NodeV { nodev(&self.0.get(NodeRef(n))) }\n    fn span(&self, n: usize) -> Span { self.0.span(NodeRef(n)) }\n    fn raw_nodes(&self) -> Vec<rt::NodeV> { self.0.data.nodes.iter().map(nodev).collect() }\n}\n",
    );
    s.push_str("pub fn run(sim: rt::Sim) -> rt::RunOut {\n    let source = sim.0.case.source();\n    let entry = sim.0.case.entry;\n    let mut diags: Vec<rt::Diag> = vec![];\n    let parser = Parser::new_with_context(&source, &mut diags, sim.clone());\n    let cst = match entry {\n");
    for (i, (ename, _, _)) in meta.entries.iter().enumerate() {
        if i == 0 {
            continue;
        }
        s.push_str(&format!("        {i} => parser.{ename}(&mut diags),\n"));
    }
    s.push_str("        _ => parser.parse(&mut diags),\n    };\n    rt::finish(&sim, &TreeView(&cst), diags)\n}\n");
    s.push_str(&format!("pub const META: &str = include_str!(\"g{idx}.meta.json\");\n"));
    s
}

fn write_if_changed(path: &Path, content: &str) {
    if std::fs::read_to_string(path).ok().as_deref() != Some(content) {
        std::fs::write(path, content).expect("write farm file");
    }
}

const NCRATES: usize = 16;

fn emit_farm(dir: &Path, grammars: &[FarmGrammar], report: serde_json::Value) {
    std::fs::create_dir_all(dir.join(".cargo")).expect("mkdir farm");
    write_if_changed(&dir.join(".cargo/config.toml"), &format!("[net]\noffline = true\n[build]\ntarget-dir = \"{}/target\"\n", dir.display()));
    if !dir.join("Cargo.lock").exists() {
        let _ = std::fs::copy("/verif/sim/Cargo.lock", dir.join("Cargo.lock"));
    }
    let mut members = vec![];
    for c in 0..NCRATES {
        members.push(format!("\"farm{c}\""));
    }
    members.push("\"farmbin\"".into());
    write_if_changed(
        &dir.join("Cargo.toml"),
        &format!(
            "[workspace]\nresolver = \"2\"\nmembers = [{}]\n\n[profile.dev]\nopt-level = 0\ndebug = 0\nincremental = false\n\n[profile.dev.package.parsim-rt]\nopt-level = 2\n[profile.dev.package.vcore]\nopt-level = 2\n[profile.dev.package.serde_json]\nopt-level = 2\n",
            members.join(", ")
        ),
    );
    for c in 0..NCRATES {
        let cd = dir.join(format!("farm{c}"));
        std::fs::create_dir_all(cd.join("src")).expect("mkdir crate");
        write_if_changed(&cd.join("Cargo.toml"), &format!("[package]\nname = \"farm{c}\"\nversion = \"0.1.0\"\nedition = \"2021\"\n\n[dependencies]\nparsim-rt = {{ path = \"/verif/sim/parsim-rt\" }}\n"));
        let mut lib = String::from("#![allow(clippy::all)]\n");
        let mut reg = String::from("pub fn registry() -> Vec<parsim_rt::driver::GrammarEntry> {\n    vec![\n");
        let mut keep = BTreeSet::new();
        for (i, g) in grammars.iter().enumerate() {
            if i % NCRATES != c {
                continue;
            }
            write_if_changed(&cd.join(format!("src/g{i}.generated.rs")), &g.generated);
            write_if_changed(&cd.join(format!("src/g{i}.meta.json")), &serde_json::to_string(&g.meta).unwrap());
            write_if_changed(&cd.join(format!("src/g{i}.rs")), &glue(i, &g.meta));
            for suf in ["generated.rs", "meta.json", "rs"] {
                keep.insert(format!("g{i}.{suf}"));
            }
            lib.push_str(&format!("pub mod g{i};\n"));
            reg.push_str(&format!("        parsim_rt::driver::GrammarEntry {{ meta_json: g{i}::META, run: g{i}::run }},\n"));
        }
        reg.push_str("    ]\n}\n");
        lib.push_str(&reg);
        write_if_changed(&cd.join("src/lib.rs"), &lib);
        keep.insert("lib.rs".into());
        if let Ok(rd) = std::fs::read_dir(cd.join("src")) {
            for e in rd.flatten() {
                if !keep.contains(&e.file_name().to_string_lossy().to_string()) {
                    let _ = std::fs::remove_file(e.path());
                }
            }
        }
    }
    let bd = dir.join("farmbin");
    std::fs::create_dir_all(bd.join("src")).expect("mkdir farmbin");
    let deps: Vec<String> = (0..NCRATES).map(|c| format!("farm{c} = {{ path = \"../farm{c}\" }}")).collect();
    write_if_changed(&bd.join("Cargo.toml"), &format!("[package]\nname = \"farmbin\"\nversion = \"0.1.0\"\nedition = \"2021\"\n\n[dependencies]\nparsim-rt = {{ path = \"/verif/sim/parsim-rt\" }}\n{}\n", deps.join("\n")));
    let mut main = String::from("fn main() {\n    let mut reg = vec![];\n");
    for c in 0..NCRATES {
        main.push_str(&format!("    reg.extend(farm{c}::registry());\n"));
    }
    main.push_str("    parsim_rt::driver::main(reg);\n}\n");
    write_if_changed(&bd.join("src/main.rs"), &main);
    write_if_changed(&dir.join("farm_report.json"), &serde_json::to_string_pretty(&report).unwrap());
}

// ------------------------------------------------------------------------------------------

fn corpus() -> Vec<(String, String)> {
    let mut files: Vec<PathBuf> = vec![];
    let mut add_dir = |dir: &Path| {
        if let Ok(rd) = std::fs::read_dir(dir) {
            let mut v: Vec<_> = rd.flatten().map(|e| e.path()).collect();
            v.sort();
            for p in v {
                if p.extension().is_some_and(|e| e == "llw") {
                    files.push(p);
                }
            }
        }
    };
    if let Ok(rd) = std::fs::read_dir("/repo/examples") {
        let mut v: Vec<_> = rd.flatten().map(|e| e.path()).collect();
        v.sort();
        for p in v {
            add_dir(&p.join("src"));
        }
    }
    add_dir(Path::new("/repo/src/frontend"));
    add_dir(Path::new("/repo/tests/frontend"));
    add_dir(Path::new("/verif/fixtures/parsim"));
    files.into_iter().filter_map(|p| std::fs::read_to_string(&p).ok().map(|t| (p.display().to_string(), t))).collect()
}

fn main() {
    let args: Vec<String> = std::env::args().collect();
    let mode = args.get(1).map(|s| s.as_str()).unwrap_or("");
    let dir = PathBuf::from(args.get(2).cloned().unwrap_or_default());
    let scratch = PathBuf::from(format!("/verif/target/scratch/parsim-gen/{}", std::process::id()));
    let mut grammars: Vec<FarmGrammar> = vec![];
    let mut rejected: BTreeMap<String, usize> = BTreeMap::new();
    let mut features: BTreeMap<&'static str, usize> = BTreeMap::new();
    let mut counts: BTreeMap<&'static str, usize> = BTreeMap::new();
    let mut counts2: BTreeMap<&'static str, usize> = BTreeMap::new();
    let mut seen_texts: BTreeSet<String> = BTreeSet::new();
    let exclude: BTreeSet<String> = std::env::var("PARSIM_EXCLUDE").ok().map(|s| s.split(',').map(|x| x.to_string()).collect()).unwrap_or_default();
    let mut consider = |name: &str, origin: &str, text: &str, probes: bool, grammars: &mut Vec<FarmGrammar>| -> bool {
        if !seen_texts.insert(text.to_string()) || exclude.contains(&format!("{:016x}", vcore::hash_str(text))) {
            return false;
        }
        // lelwel itself may panic on a generated grammar: that is not this engine's business (counted)
        let t = text.to_string();
        let sc = scratch.clone();
        let res = std::panic::catch_unwind(move || accept(&t, &sc));
        let acc = match res {
            Err(_) => {
                *rejected.entry("lelwel_panicked".into()).or_default() += 1;
                return false;
            }
            Ok(Err(code)) => {
                *rejected.entry(code).or_default() += 1;
                return false;
            }
            Ok(Ok(a)) => a,
        };
        let meta = match build_meta(name, origin, text, &acc, probes) {
            Ok(m) => m,
            Err(e) => {
                *rejected.entry(format!("glue:{e}")).or_default() += 1;
                return false;
            }
        };
        if !meta.total_domain {
            *rejected.entry(if acc.model.all_productive() { "domain:cycle_without_consumption".to_string() } else { "domain:unproductive_rule".to_string() }).or_default() += 1;
            return false;
        }
        if acc.model.tokens.iter().all(|t| t.skipped) {
            *rejected.entry("no_plain_token".into()).or_default() += 1;
            return false;
        }
        for (k, v) in acc.model.feature_counts() {
            *features.entry(k).or_default() += v;
        }
        if acc.warnings > 0 {
            *counts.entry("grammars_with_warnings").or_default() += 1;
        }
        if meta.has_choice {
            *counts.entry("grammars_with_ordered_choice").or_default() += 1;
        }
        grammars.push(FarmGrammar { meta, generated: acc.generated });
        true
    };
    match mode {
        "single" => {
            let text = std::fs::read_to_string(&args[3]).expect("grammar text file");
            let probes = text.contains("!90");
            consider("replay", "replay file", &text, probes, &mut grammars);
        }
        "farm" | "extra" => {
            let tier = args.get(3).map(|s| s.as_str()).unwrap_or("quick");
            let seed: u64 = args.get(4).and_then(|s| s.parse().ok()).unwrap_or(1);
            let mut n_corpus = 0;
            for (name, text) in corpus() {
                let short = name.rsplit('/').next().unwrap_or(&name).to_string();
                // fixtures carry the probe assertions (!9c0 / !9ck / !9c9); repository grammars do not
                let probes = name.starts_with("/verif/fixtures/") && text.contains("!900");
                if consider(&short, &name, &text, probes, &mut grammars) {
                    n_corpus += 1;
                }
            }
            counts2.insert("corpus_grammars_accepted", n_corpus);
            if mode == "extra" {
                let extra: Vec<String> = serde_json::from_str(&std::fs::read_to_string(&args[5]).expect("extra file")).expect("extra json");
                for (i, t) in extra.iter().enumerate() {
                    consider(&format!("extra{i}"), "extra", t, t.contains("!90"), &mut grammars);
                }
            }
            let want = if tier == "thorough" { 1500 } else { 220 };
            let root = Rng::new(seed);
            let mut tried = 0usize;
            let mut got = 0usize;
            while got < want && tried < want * 40 {
                let mut rng = root.child("grammar", tried as u64);
                let model = random_grammar(&mut rng);
                let text = model.to_text();
                tried += 1;
                if consider(&format!("rand{tried}"), &format!("seeded random grammar #{tried} (seed {seed})"), &text, true, &mut grammars) {
                    got += 1;
                }
            }
            counts2.insert("random_grammars_tried", tried);
            counts2.insert("random_grammars_accepted", got);
        }
        _ => {
            eprintln!("usage: parsim-gen farm <dir> <tier> <seed> | single <dir> <file> | extra <dir> <tier> <seed> <file>");
            std::process::exit(2);
        }
    }
    counts.extend(counts2);
    let report = json!({
        "grammars": grammars.len(),
        "counts": counts,
        "rejected_by_reason": rejected,
        "operator_and_declaration_counts_over_accepted_grammars": features,
        "generated_code_lines": grammars.iter().map(|g| g.generated.lines().count()).sum::<usize>(),
    });
    emit_farm(&dir, &grammars, report.clone());
    let _ = std::fs::remove_dir_all(&scratch);
    println!("{}", serde_json::to_string(&report).unwrap());
}
