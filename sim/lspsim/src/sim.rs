//! One execution of the real server main loop + Cache + analysis threads under a shuttle
//! scheduler the simulator owns. The client is simulated: all messages of a history are queued
//! on the in-memory transport before the main loop starts.

use lelwel_verif_shim::ide_ctl;
use lsp_server::{Connection, Message};
use serde::{Deserialize, Serialize};
use shuttle::scheduler::{PctScheduler, RandomScheduler, RoundRobinScheduler, Schedule, Scheduler, Task, TaskId};
use std::panic::{AssertUnwindSafe, catch_unwind};
use std::sync::{Arc, Mutex};

#[derive(Serialize, Deserialize, Clone, Debug, PartialEq, Eq, Hash)]
pub enum SchedSpec {
    RoundRobin,
    Random(u64),
    Pct(u64, usize),
    /// explicit list of task ids chosen at each scheduling point (exact replay, shrinkable)
    Replay(Vec<usize>),
}

#[derive(Clone, Debug, PartialEq, Eq)]
pub enum MainEnd {
    Ok,
    /// main_loop returned Err
    Err(String),
    /// the main task panicked: "file|message"
    Panic(String),
    Deadlock(String),
    /// anything else shuttle reported (step limit, ...)
    Other(String),
}

pub struct Outcome {
    pub main: MainEnd,
    pub replies: Vec<Message>,
    /// every panic of the execution in order: (location, message); the main task's, if any, is last
    pub panics: Vec<(String, String)>,
    pub thread_panics: usize,
    pub spawns: usize,
    pub deferred_drops: usize,
    pub schedule: Vec<usize>,
    /// number of scheduling points at which more than one task was runnable
    pub choice_points: usize,
}

struct Recording {
    inner: Box<dyn Scheduler + Send>,
    trace: Arc<Mutex<(Vec<usize>, usize)>>,
}
impl Scheduler for Recording {
    fn new_execution(&mut self) -> Option<Schedule> {
        self.inner.new_execution()
    }
    fn next_task(&mut self, runnable: &[&Task], current: Option<TaskId>, is_yielding: bool) -> Option<TaskId> {
        let r = self.inner.next_task(runnable, current, is_yielding);
        if let Some(t) = r {
            let mut g = self.trace.lock().unwrap();
            g.0.push(usize::from(t));
            if runnable.len() > 1 {
                g.1 += 1;
            }
        }
        r
    }
    fn next_u64(&mut self) -> u64 {
        self.inner.next_u64()
    }
}

/// Replays an explicit choice list; where the list runs out or names a task that is not runnable
/// (after shrinking), falls back to "stay on the current task, else the lowest id".
struct ReplayList {
    list: Vec<usize>,
    at: usize,
    done: bool,
}
impl Scheduler for ReplayList {
    fn new_execution(&mut self) -> Option<Schedule> {
        if self.done {
            None
        } else {
            self.done = true;
            self.at = 0;
            Some(Schedule::new(0))
        }
    }
    fn next_task(&mut self, runnable: &[&Task], current: Option<TaskId>, _is_yielding: bool) -> Option<TaskId> {
        let want = self.list.get(self.at).copied();
        self.at += 1;
        if let Some(w) = want
            && let Some(t) = runnable.iter().find(|t| usize::from(t.id()) == w)
        {
            return Some(t.id());
        }
        if let Some(c) = current
            && runnable.iter().any(|t| t.id() == c)
        {
            return Some(c);
        }
        runnable.first().map(|t| t.id())
    }
    fn next_u64(&mut self) -> u64 {
        0
    }
}

fn make_scheduler(spec: &SchedSpec) -> Box<dyn Scheduler + Send> {
    match spec {
        SchedSpec::RoundRobin => Box::new(RoundRobinScheduler::new(1)),
        SchedSpec::Random(s) => Box::new(RandomScheduler::new_from_seed(*s, 1)),
        SchedSpec::Pct(s, d) => Box::new(PctScheduler::new_from_seed(*s, *d, 1)),
        SchedSpec::Replay(l) => Box::new(ReplayList { list: l.clone(), at: 0, done: false }),
    }
}

/// Run `body` as the root task of one shuttle execution. `body` gets called exactly once.
pub fn run_under_shuttle<R: Send + 'static>(
    spec: &SchedSpec,
    body: impl Fn() -> R + Send + Sync + 'static,
) -> (Result<R, String>, Vec<usize>, usize) {
    let trace = Arc::new(Mutex::new((Vec::new(), 0usize)));
    let rec = Recording { inner: make_scheduler(spec), trace: trace.clone() };
    let mut cfg = shuttle::Config::new();
    cfg.stack_size = 4 << 20;
    cfg.failure_persistence = shuttle::FailurePersistence::None;
    cfg.silence_warnings = true;
    cfg.max_steps = shuttle::MaxSteps::FailAfter(200_000);
    let slot: Arc<Mutex<Option<R>>> = Arc::new(Mutex::new(None));
    let slot2 = slot.clone();
    let res = catch_unwind(AssertUnwindSafe(move || {
        shuttle::Runner::new(rec, cfg).run(move || {
            let r = body();
            *slot2.lock().unwrap() = Some(r);
        });
    }));
    let (sched, choices) = {
        let g = trace.lock().unwrap();
        (g.0.clone(), g.1)
    };
    match res {
        Ok(()) => match slot.lock().unwrap().take() {
            Some(r) => (Ok(r), sched, choices),
            None => (Err("execution ended without a result".to_string()), sched, choices),
        },
        Err(e) => {
            let msg = if let Some(s) = e.downcast_ref::<String>() {
                s.clone()
            } else if let Some(s) = e.downcast_ref::<&str>() {
                s.to_string()
            } else {
                "<non-string panic from shuttle>".to_string()
            };
            (Err(msg), sched, choices)
        }
    }
}

/// Execute the real server on the given client messages under the given schedule.
///
/// Each execution runs on an OS thread of its own. dprint-core keeps a per-OS-thread bump arena that it
/// resets only when its per-thread nesting counter returns to zero, and a panic inside the formatter
/// (finding F15) leaves that counter raised for the rest of the thread's life. In the real server every
/// analysis is an OS thread of its own, so the arena dies with it; under shuttle all simulated threads
/// share the caller's OS thread and the arena would grow for the rest of the process.
pub fn execute(msgs: &[Message], spec: &SchedSpec) -> Outcome {
    std::thread::scope(|s| {
        std::thread::Builder::new()
            .stack_size(16 << 20)
            .spawn_scoped(s, || execute_on_this_thread(msgs, spec))
            .expect("spawn execution thread")
            .join()
            .expect("execution thread")
    })
}

fn execute_on_this_thread(msgs: &[Message], spec: &SchedSpec) -> Outcome {
    let _ = vcore::take_panics();
    let msgs: Vec<Message> = msgs.to_vec();
    let (res, schedule, choice_points) = run_under_shuttle(spec, move || {
        ide_ctl::reset();
        let (server, client) = Connection::memory();
        for m in &msgs {
            client.sender.send(m.clone()).expect("queue client message");
        }
        let Connection { sender: client_tx, receiver: client_rx } = client;
        drop(client_tx);
        let init = serde_json::to_value(lsp_types::InitializeParams::default()).unwrap();
        let r = catch_unwind(AssertUnwindSafe(|| crate::server::verif_main_loop(server, init)));
        let main = match r {
            Ok(Ok(())) => MainEnd::Ok,
            Ok(Err(e)) => MainEnd::Err(format!("{e}")),
            Err(_) => {
                // the Cache (senders, receivers, join handles) was dropped while unwinding: perform the
                // deferred drops now so that the analysis threads see the disconnect, as they would for real
                ide_ctl::drain_deferred();
                MainEnd::Panic(String::new())
            }
        };
        let replies: Vec<Message> = client_rx.try_iter().collect();
        (main, replies, ide_ctl::thread_panics(), ide_ctl::spawns(), ide_ctl::deferred_drops())
    });
    let panics = vcore::take_panics();
    match res {
        Ok((mut main, replies, thread_panics, spawns, deferred_drops)) => {
            if let MainEnd::Panic(_) = main {
                let (loc, msg) = panics.last().cloned().unwrap_or_default();
                main = MainEnd::Panic(vcore::panic_site(&loc, &msg));
            }
            Outcome { main, replies, panics, thread_panics, spawns, deferred_drops, schedule, choice_points }
        }
        Err(msg) => {
            let main = if msg.contains("deadlock") {
                MainEnd::Deadlock(msg.lines().next().unwrap_or("").chars().take(120).collect())
            } else {
                MainEnd::Other(msg.lines().next().unwrap_or("").chars().take(160).collect())
            };
            Outcome {
                main,
                replies: vec![],
                panics,
                thread_panics: 0,
                spawns: 0,
                deferred_drops: 0,
                schedule,
                choice_points,
            }
        }
    }
}
