//! lspsim — C20: the language server under a scheduler the simulator owns (DESIGN.md §4.4, §5/C20).
//!
//!   lspsim run C20        histories x schedules, oracles, minimisation, evidence
//!   lspsim replay <file>  re-execute one replay file (explicit history + explicit schedule)

#[allow(dead_code)]
#[path = "/repo/src/bin/lelwel-ls.rs"]
mod server;

mod hist;
mod oracle;
mod sim;
mod stdio;

use hist::*;
use oracle::*;
use serde_json::{Value, json};
use sim::*;
use std::collections::{BTreeMap, BTreeSet};
use std::sync::Mutex;
use std::time::Instant;
use vcore::{Rng, Tier};

const PROP: &str = "C20";

struct Found {
    sig: String,
    viol: Violation,
    hist: History,
    sched: SchedSpec,
    schedule: Vec<usize>,
    hist_idx: usize,
}

#[derive(Default)]
struct Stats {
    executions: usize,
    histories: usize,
    steps: usize,
    thread_panics: usize,
    executions_with_thread_panic: usize,
    main_panics: usize,
    deadlocks: usize,
    spawns: usize,
    deferred_drops: usize,
    choice_points: usize,
    by_sched: BTreeMap<&'static str, usize>,
    distinct: BTreeSet<u64>,
    distinct_schedules_per_history_max: usize,
    crash_sites: BTreeMap<String, usize>,
    requests_compared: usize,
    diagnostics_compared: usize,
    ref_failed: usize,
    mid_surrogate_skipped: usize,
    formatting_checked: usize,
    hover_checked: usize,
    defref_checked: usize,
    abrupt_ends: usize,
    pos_classes: BTreeMap<String, usize>,
    step_kinds: BTreeMap<&'static str, usize>,
    probe_request_while_analyzer_unwinding: usize,
}

fn sched_specs(rng: &mut Rng, n: usize) -> Vec<SchedSpec> {
    let mut v = vec![SchedSpec::RoundRobin];
    while v.len() < n {
        let s = rng.next_u64();
        v.push(match v.len() % 4 {
            0 => SchedSpec::Pct(s, 2),
            3 => SchedSpec::Pct(s, 3),
            _ => SchedSpec::Random(s),
        });
    }
    v
}

fn sched_name(s: &SchedSpec) -> &'static str {
    match s {
        SchedSpec::RoundRobin => "round_robin",
        SchedSpec::Random(_) => "random",
        SchedSpec::Pct(..) => "pct",
        SchedSpec::Replay(_) => "replay",
    }
}

fn run_history(hi: usize, h: &History, specs: &[SchedSpec], stats: &mut Stats, found: &mut Vec<Found>) {
    let msgs = h.to_messages();
    stats.histories += 1;
    stats.steps += h.steps.len();
    if h.abrupt_end {
        stats.abrupt_ends += 1;
    }
    for s in &h.steps {
        *stats
            .step_kinds
            .entry(match s {
                Step::Open { .. } => "didOpen",
                Step::Change { .. } => "didChange",
                Step::Close { .. } => "didClose",
                Step::Req { q, .. } => q.name(),
            })
            .or_default() += 1;
        if let Step::Req { class, .. } = s {
            *stats.pos_classes.entry(format!("{class:?}")).or_default() += 1;
        }
    }
    // reach probes of the workload
    let mut latest: Vec<Option<&String>> = vec![None; h.uris.len()];
    for s in &h.steps {
        match s {
            Step::Open { doc, text } => latest[*doc] = Some(text),
            Step::Change { doc, text, earlier } => {
                latest[*doc] = Some(text);
                if !earlier.is_empty() {
                    *stats.step_kinds.entry("probe: didChange with several content changes").or_default() += 1;
                }
            }
            Step::Close { doc } => latest[*doc] = None,
            Step::Req { doc, line, ch, .. } => {
                if let Some(t) = latest[*doc] {
                    if t.contains("zz_wip") {
                        *stats.step_kinds.entry("probe: request on a text with a not yet referenced rule").or_default() += 1;
                    }
                    let on_op = t.lines().nth(*line as usize).and_then(|l| l.encode_utf16().nth(*ch as usize)).is_some_and(|u| "*+?[]()|/^~&<>:;".encode_utf16().any(|o| o == u));
                    if on_op {
                        *stats.step_kinds.entry("probe: request exactly on an operator or bracket").or_default() += 1;
                    }
                }
            }
        }
    }
    let mut js = JudgeStats { requests_compared: 0, diagnostics_compared: 0, ref_failed: 0, mid_surrogate_skipped: 0, formatting_checked: 0, defref_checked: 0, hover_checked: 0 };
    let mut schedules_here = BTreeSet::new();
    let shape = vcore::hash_str(&serde_json::to_string(&h.steps).unwrap());
    for spec in specs {
        let out = execute(&msgs, spec);
        stats.executions += 1;
        *stats.by_sched.entry(sched_name(spec)).or_default() += 1;
        stats.thread_panics += out.thread_panics;
        if out.thread_panics > 0 {
            stats.executions_with_thread_panic += 1;
        }
        stats.spawns += out.spawns;
        stats.deferred_drops += out.deferred_drops;
        stats.choice_points += out.choice_points;
        match &out.main {
            MainEnd::Panic(site) => {
                stats.main_panics += 1;
                *stats.crash_sites.entry(site.clone()).or_default() += 1;
            }
            MainEnd::Deadlock(_) => stats.deadlocks += 1,
            _ => {}
        }
        // a reply that came back although the analysis thread had already panicked = a request served
        // while / after the thread was unwinding
        if out.thread_panics > 0 && matches!(out.main, MainEnd::Ok) {
            stats.probe_request_while_analyzer_unwinding += 1;
        }
        let sh = vcore::hash_str(&format!("{:?}", out.schedule));
        schedules_here.insert(sh);
        stats.distinct.insert(vcore::h(&[shape, sh]));
        for viol in judge(h, &out, &mut js) {
            let sig = viol.signature();
            if !found.iter().any(|f| f.sig == sig) {
                found.push(Found { sig, viol, hist: h.clone(), sched: spec.clone(), schedule: out.schedule.clone(), hist_idx: hi });
            }
        }
    }
    stats.distinct_schedules_per_history_max = stats.distinct_schedules_per_history_max.max(schedules_here.len());
    stats.requests_compared += js.requests_compared;
    stats.diagnostics_compared += js.diagnostics_compared;
    stats.ref_failed += js.ref_failed;
    stats.mid_surrogate_skipped += js.mid_surrogate_skipped;
    stats.formatting_checked += js.formatting_checked;
    stats.hover_checked += js.hover_checked;
    stats.defref_checked += js.defref_checked;
}

fn merge(a: &mut Stats, b: Stats) {
    a.executions += b.executions;
    a.histories += b.histories;
    a.steps += b.steps;
    a.thread_panics += b.thread_panics;
    a.executions_with_thread_panic += b.executions_with_thread_panic;
    a.main_panics += b.main_panics;
    a.deadlocks += b.deadlocks;
    a.spawns += b.spawns;
    a.deferred_drops += b.deferred_drops;
    a.choice_points += b.choice_points;
    for (k, v) in b.by_sched {
        *a.by_sched.entry(k).or_default() += v;
    }
    a.distinct.extend(b.distinct);
    a.distinct_schedules_per_history_max = a.distinct_schedules_per_history_max.max(b.distinct_schedules_per_history_max);
    for (k, v) in b.crash_sites {
        *a.crash_sites.entry(k).or_default() += v;
    }
    a.requests_compared += b.requests_compared;
    a.diagnostics_compared += b.diagnostics_compared;
    a.ref_failed += b.ref_failed;
    a.mid_surrogate_skipped += b.mid_surrogate_skipped;
    a.formatting_checked += b.formatting_checked;
    a.hover_checked += b.hover_checked;
    a.defref_checked += b.defref_checked;
    a.abrupt_ends += b.abrupt_ends;
    for (k, v) in b.pos_classes {
        *a.pos_classes.entry(k).or_default() += v;
    }
    for (k, v) in b.step_kinds {
        *a.step_kinds.entry(k).or_default() += v;
    }
    a.probe_request_while_analyzer_unwinding += b.probe_request_while_analyzer_unwinding;
}

// ------------------------------------------------------------------------------------------
// minimisation: drop steps (keeping the history protocol-conforming), shrink texts line by line,
// simplify the schedule, while the same violation signature persists

fn shows(h: &History, sig: &str, specs: &[SchedSpec]) -> Option<(SchedSpec, Vec<usize>, Violation)> {
    if !h.valid() {
        return None;
    }
    let msgs = h.to_messages();
    let mut js = JudgeStats { requests_compared: 0, diagnostics_compared: 0, ref_failed: 0, mid_surrogate_skipped: 0, formatting_checked: 0, defref_checked: 0, hover_checked: 0 };
    for spec in specs {
        let out = execute(&msgs, spec);
        if let Some(v) = judge(h, &out, &mut js).into_iter().find(|v| v.signature() == sig) {
            return Some((spec.clone(), out.schedule.clone(), v));
        }
    }
    None
}

fn minimise(f: &Found, seed: u64) -> (History, SchedSpec, Vec<usize>, Violation) {
    let mut rng = Rng::new(vcore::h(&[seed, 0x3131, f.hist_idx as u64]));
    let mut specs = vec![SchedSpec::RoundRobin, f.sched.clone()];
    specs.extend(sched_specs(&mut rng, 12).into_iter().skip(1));
    let mut best = f.hist.clone();
    let mut best_run = shows(&best, &f.sig, &specs).unwrap_or((f.sched.clone(), f.schedule.clone(), f.viol.clone()));
    let mut budget = 400usize;
    // 1. drop steps
    let mut changed = true;
    while changed && budget > 0 {
        changed = false;
        let mut i = best.steps.len();
        while i > 0 && budget > 0 {
            i -= 1;
            let mut c = best.clone();
            c.steps.remove(i);
            budget -= 1;
            if let Some(r) = shows(&c, &f.sig, &specs) {
                best = c;
                best_run = r;
                changed = true;
            }
        }
    }
    // 2. shrink texts: drop lines, then halves of lines
    for si in 0..best.steps.len() {
        let text = match &best.steps[si] {
            Step::Open { text, .. } | Step::Change { text, .. } => text.clone(),
            _ => continue,
        };
        let mut lines: Vec<String> = text.split_inclusive('\n').map(|s| s.to_string()).collect();
        let mut k = lines.len();
        while k > 0 && budget > 0 {
            k -= 1;
            if lines.len() <= 1 {
                break;
            }
            let mut l2 = lines.clone();
            l2.remove(k);
            let mut c = best.clone();
            let nt = l2.concat();
            match &mut c.steps[si] {
                Step::Open { text, .. } | Step::Change { text, .. } => *text = nt,
                _ => {}
            }
            // positions of later requests may now be out of the document: keep only candidates whose lines exist
            let ok_positions = positions_inside(&c);
            budget -= 1;
            if ok_positions && let Some(r) = shows(&c, &f.sig, &specs) {
                best = c;
                best_run = r;
                lines = l2;
            }
        }
    }
    // 3. schedule: prefer the sequential one (already tried first in `specs`)
    (best, best_run.0, best_run.1, best_run.2)
}

/// every request of the history names an existing line of the then-latest text
fn positions_inside(h: &History) -> bool {
    let mut latest: Vec<Option<String>> = vec![None; h.uris.len()];
    for s in &h.steps {
        match s {
            Step::Open { doc, text } | Step::Change { doc, text, .. } => latest[*doc] = Some(text.clone()),
            Step::Close { doc } => latest[*doc] = None,
            Step::Req { doc, line, .. } => {
                let Some(t) = &latest[*doc] else { return false };
                if *line as usize >= line_spans(t).len() {
                    return false;
                }
            }
        }
    }
    true
}

// ------------------------------------------------------------------------------------------

fn run(tier: Tier, seed: u64) -> i32 {
    let t0 = Instant::now();
    vcore::quiet_panics();
    prepare_scratch();
    let root = Rng::new(seed);
    let n_hist = tier.pick(320usize, 6000usize);
    let n_sched = tier.pick(16usize, 64usize);
    let max_steps = 25usize;
    let pool = TextPool::build(&mut root.child("pool", 0), tier.pick(150, 600));
    let nworkers = vcore::workers();
    let results: Mutex<Vec<(usize, Stats, Vec<Found>)>> = Mutex::new(vec![]);
    std::thread::scope(|sc| {
        for w in 0..nworkers {
            let pool = &pool;
            let root = &root;
            let results = &results;
            sc.spawn(move || {
                let mut stats = Stats::default();
                let mut found = vec![];
                // static partition by index: the set of executed (history, schedule) pairs is independent of the worker count
                let mut hi = w;
                while hi < n_hist {
                    let mut rng = root.child("history", hi as u64);
                    let h = generate(&mut rng, pool, max_steps);
                    let specs = sched_specs(&mut root.child("schedules", hi as u64), n_sched);
                    run_history(hi, &h, &specs, &mut stats, &mut found);
                    hi += nworkers;
                }
                results.lock().unwrap().push((w, stats, found));
            });
        }
    });
    let mut results = results.into_inner().unwrap();
    results.sort_by_key(|r| r.0);
    let mut stats = Stats::default();
    let mut found: Vec<Found> = vec![];
    for (_, s, f) in results {
        merge(&mut stats, s);
        found.extend(f);
    }
    // one report per signature: the occurrence in the lowest-numbered history
    found.sort_by_key(|f| (f.sig.clone(), f.hist_idx));
    found.dedup_by(|b, a| a.sig == b.sig);

    let mut verdicts = vcore::Verdicts::new(PROP);
    let mut samples: Vec<Value> = vec![];
    // ---- second layer: the real binary over stdio (uncontrolled scheduling; integration evidence) ----------
    stdio::build_server();
    let n_stdio = tier.pick(48usize, 400usize);
    let stdio_results: Mutex<Vec<(usize, Option<(String, String)>, usize)>> = Mutex::new(vec![]);
    std::thread::scope(|sc| {
        for w in 0..nworkers {
            let (pool, root, stdio_results) = (&pool, &root, &stdio_results);
            sc.spawn(move || {
                let mut hi = w;
                while hi < n_stdio {
                    let h = generate(&mut root.child("history", hi as u64), pool, max_steps);
                    let l1 = execute(&h.to_messages(), &SchedSpec::RoundRobin);
                    let mut rng = root.child("stdio-pacing", hi as u64);
                    let out = stdio::run(&h, &mut rng);
                    // only compare when layer 1 itself ended normally (its own violations are reported by layer 1)
                    let v = if matches!(l1.main, MainEnd::Ok) { stdio::compare(&l1.replies, &out) } else { None };
                    stdio_results.lock().unwrap().push((hi, v, out.writes));
                    hi += nworkers;
                }
            });
        }
    });
    let mut stdio_results = stdio_results.into_inner().unwrap();
    stdio_results.sort_by_key(|r| r.0);
    let stdio_runs = stdio_results.len();
    let stdio_writes: usize = stdio_results.iter().map(|r| r.2).sum();
    for (hi, v, _) in &stdio_results {
        if let Some((class, detail)) = v {
            let h = generate(&mut root.child("history", *hi as u64), &pool, max_steps);
            verdicts.violation(&format!("C20.{class}"), &json!({"engine": "lspsim", "seed": seed, "layer": "stdio", "violation": {"class": class, "detail": detail}, "history": h, "schedule": [], "original_history_index": hi}));
        }
    }
    for f in &found {
        if verdicts.is_known(&f.sig) {
            verdicts.violation(&f.sig, &json!({}));
            continue;
        }
        let (h, spec, schedule, viol) = minimise(f, seed);
        // replay the minimised case once with its explicit schedule before reporting it
        let replay_spec = SchedSpec::Replay(schedule.clone());
        let again = shows(&h, &f.sig, std::slice::from_ref(&replay_spec));
        if again.is_none() {
            vcore::harness_error(&format!("minimised case for {} does not reproduce from its explicit schedule (determinism bug in the harness)", f.sig));
        }
        verdicts.violation(
            &f.sig,
            &json!({
                "engine": "lspsim",
                "seed": seed,
                "violation": {"class": viol.class, "site": viol.site, "detail": viol.detail, "step": viol.step},
                "history": h,
                "found_with_scheduler": spec,
                "schedule": schedule,
                "original_history_index": f.hist_idx,
                "original_history_steps": f.hist.steps.len(),
            }),
        );
    }
    // samples for the evidence: the first two histories in the compact form
    for hi in 0..2usize.min(n_hist) {
        let h = generate(&mut root.child("history", hi as u64), &pool, max_steps);
        samples.push(json!({
            "history_index": hi,
            "steps": h.steps.iter().map(|s| match s {
                Step::Open{doc, text} => format!("didOpen doc{doc} ({} bytes: {:?}...)", text.len(), text.chars().take(40).collect::<String>()),
                Step::Change{doc, text, ..} => format!("didChange doc{doc} ({} bytes: {:?}...)", text.len(), text.chars().take(40).collect::<String>()),
                Step::Close{doc} => format!("didClose doc{doc}"),
                Step::Req{doc, q, line, ch, class} => format!("{} doc{doc} @{line}:{ch} ({class:?})", q.name()),
            }).collect::<Vec<_>>(),
            "schedulers": sched_specs(&mut root.child("schedules", hi as u64), n_sched).iter().take(4).map(|s| format!("{s:?}")).collect::<Vec<_>>(),
        }));
    }
    if stats.thread_panics == 0 {
        println!("note: reach probe 'analysis thread panicked and was survived' is at 0 in this run");
    }
    let code = verdicts.finish();
    let wall = t0.elapsed().as_secs_f64();
    vcore::Evidence {
        property_id: PROP.into(),
        tier,
        seed,
        level: "exploration",
        coverage: json!({
            "evaluations": stats.executions,
            "distinct_nontrivial": stats.distinct.len(),
            "run_digest": format!("{:016x}", stats.distinct.iter().fold(0u64, |a, h| a ^ vcore::mix(*h))),
            "rule": "evaluation = one execution of the real server main loop + Cache + analysis threads on one seeded protocol-conforming history (<= 25 steps, <= 3 documents, texts from repository grammars, seeded mutants and half-typed fragments; positions on word boundaries, anywhere, past the line end, inside surrogate pairs) under one shuttle schedule (round-robin, seeded random, seeded PCT depth 2/3). Non-trivial = every execution performs at least one analysis; distinct = different (history, recorded schedule = sequence of task ids chosen at every scheduling point).",
            "samples": samples,
            "histories": stats.histories,
            "history_steps": stats.steps,
            "step_kinds": stats.step_kinds,
            "position_classes": stats.pos_classes,
            "schedulers": stats.by_sched,
            "scheduling_points_with_a_choice": stats.choice_points,
            "max_distinct_schedules_for_one_history": stats.distinct_schedules_per_history_max,
            "analysis_threads_spawned": stats.spawns,
            "fault_kinds_fired": {
                "analysis_thread_panics_survived": stats.thread_panics,
                "executions_with_an_analysis_thread_panic": stats.executions_with_thread_panic,
                "channel_endpoint_drops_deferred_during_unwinding": stats.deferred_drops,
                "main_task_panics": stats.main_panics,
                "histories_ending_with_the_client_vanishing_(transport_closed)": stats.abrupt_ends,
                "deadlocks": stats.deadlocks,
            },
            "main_task_crash_sites": stats.crash_sites,
            "reach_probes": {
                "execution_survived_an_analysis_thread_panic": stats.probe_request_while_analyzer_unwinding,
            },
            "oracle_evaluations": {
                "answers_compared_with_fresh_session_on_latest_text": stats.requests_compared,
                "reference_sessions_run": REF_EVALS.load(std::sync::atomic::Ordering::Relaxed),
                "reference_unavailable": stats.ref_failed,
                "mid_surrogate_positions_not_compared": stats.mid_surrogate_skipped,
                "diagnostics_compared_with_command_line_check": stats.diagnostics_compared,
                "formatting_edits_applied_and_compared": stats.formatting_checked,
                "hover_answers_compared_with_analysis_sets": stats.hover_checked,
                "references_answers_cross_checked_with_definition": stats.defref_checked,
            },
            "text_pool_size": pool.texts.len(),
            "second_layer_real_binary_over_stdio": {"histories": stdio_runs, "write_calls_with_seeded_chunking": stdio_writes, "note": "scheduling of the real process is not controlled; integration evidence only"},
            "executions_per_hour": (stats.executions as f64 / wall * 3600.0) as u64,
            "simulated_time_s": 0,
            "simulated_time_note": "the server has no timer; the only timed wait (lsp-server's 30 s recv_timeout for `exit`) never waits because `exit` is always queued",
            "real_vs_stub": {
                "real": ["main_loop and all handlers of src/bin/lelwel-ls.rs", "ide::Cache, analyze, hover/lookup/completion/format", "front end + semantic pass", "lsp_server message types and Connection::memory()"],
                "simulated": ["thread scheduling, mpsc channels, thread lifecycle (shuttle through the std shadow seam, std panic semantics restored by the shim)", "the client (all messages queued up front)", "the transport (in-memory crossbeam channel)"],
            },
        }),
        assumptions: vec![
            "the shim's spawn/JoinHandle::is_finished/mpsc wrappers model std's behaviour for a panicking thread (endpoints dropped in order, one scheduling point each, then finished, then join returns Err)".into(),
            "all client messages are queued before the main loop starts, so the main task never blocks outside shuttle; request pipelining is therefore maximal".into(),
            "the reference answer is the same server run on a fresh session with only the latest text, sequentially; diagnostics, formatting and ranges have independent harness-side oracles".into(),
            "answers at positions inside a surrogate pair are only checked for no-crash and range validity".into(),
        ],
        wall_s: wall,
        violations: verdicts.count_new(),
        extra: json!({"engine": "lspsim"}),
    }
    .write();
    println!(
        "lspsim: tier={} seed={} histories={} executions={} distinct={} thread_panics={} main_panics={} new_violations={} known={} wall={:.1}s",
        tier.name(), seed, stats.histories, stats.executions, stats.distinct.len(), stats.thread_panics, stats.main_panics, verdicts.count_new(), verdicts.known_hits.len(), wall
    );
    code
}

fn replay(file: &str) -> i32 {
    vcore::quiet_panics();
    prepare_scratch();
    let text = std::fs::read_to_string(file).unwrap_or_else(|e| vcore::harness_error(&format!("cannot read {file}: {e}")));
    let v: Value = serde_json::from_str(&text).unwrap_or_else(|e| vcore::harness_error(&format!("replay file does not parse: {e}")));
    let h: History = serde_json::from_value(v["history"].clone()).unwrap_or_else(|e| vcore::harness_error(&format!("no history in replay file: {e}")));
    let schedule: Vec<usize> = serde_json::from_value(v["schedule"].clone()).unwrap_or_default();
    let sig = v["signature"].as_str().unwrap_or("").to_string();
    if v["layer"].as_str() == Some("stdio") {
        // second-layer finding: real binary over stdio (scheduling not controlled: repeat a few pacings)
        stdio::build_server();
        let l1 = execute(&h.to_messages(), &SchedSpec::RoundRobin);
        for k in 0..8u64 {
            let mut rng = Rng::new(k);
            let out = stdio::run(&h, &mut rng);
            if let Some((class, detail)) = stdio::compare(&l1.replies, &out) {
                println!("  {class}: {detail}");
                if format!("C20.{class}") == sig {
                    println!("VIOLATION property={PROP} replay={file}");
                    return 1;
                }
            }
        }
        println!("not reproduced: {sig}");
        return 0;
    }
    let spec = SchedSpec::Replay(schedule);
    let out = execute(&h.to_messages(), &spec);
    let mut js = JudgeStats { requests_compared: 0, diagnostics_compared: 0, ref_failed: 0, mid_surrogate_skipped: 0, formatting_checked: 0, defref_checked: 0, hover_checked: 0 };
    let vs = judge(&h, &out, &mut js);
    println!("replayed {} steps; main task: {:?}; analysis-thread panics: {}; panics: {:?}", h.steps.len(), out.main, out.thread_panics, out.panics);
    for x in &vs {
        println!("  violation {} -- {}", x.signature(), x.detail);
    }
    if vs.iter().any(|x| x.signature() == sig) {
        println!("VIOLATION property={PROP} replay={file}");
        1
    } else {
        println!("not reproduced: {sig}");
        0
    }
}

fn leaktest(args: &[String]) {
            // diagnostic: repeat one history under one scheduler and print the resident set size
            vcore::quiet_panics();
            prepare_scratch();
            let root = Rng::new(1);
            let pool = TextPool::build(&mut root.child("pool", 0), 50);
            let h = generate(&mut root.child("history", 3), &pool, 25);
            let msgs = h.to_messages();
            let rss = || std::fs::read_to_string("/proc/self/statm").ok().and_then(|s| s.split_whitespace().nth(1).and_then(|x| x.parse::<usize>().ok())).unwrap_or(0) * 4 / 1024;
            let mode = args.get(2).cloned().unwrap_or_default();
            if mode == "texts" || mode == "texts_judge" {
                // one two-step session per distinct text, no memo
                let pool = TextPool::build(&mut root.child("pool", 0), 600);
                for i in 0..6000usize {
                    let text = format!("{}\n// {i}\n", pool.texts[i % pool.texts.len()]);
                    let hh = History { uris: doc_uris(), steps: vec![Step::Open { doc: 0, text }, Step::Req { doc: 0, q: Query::Completion, line: 0, ch: 0, class: PosClass::Inside }], abrupt_end: false };
                    let out = execute(&hh.to_messages(), &SchedSpec::RoundRobin);
                    if mode == "texts_judge" {
                        let mut js = JudgeStats { requests_compared: 0, diagnostics_compared: 0, ref_failed: 0, mid_surrogate_skipped: 0, formatting_checked: 0, defref_checked: 0, hover_checked: 0 };
                        let _ = judge(&hh, &out, &mut js);
                    }
                    if i % 500 == 0 {
                        println!("{i} texts: rss {} MiB", rss());
                    }
                }
                return;
            }
            if mode == "fmt_ok" || mode == "fmt_panic" {
                let text = if mode == "fmt_ok" { "token A B;\nstart s;\ns: A [B];\n".to_string() } else { "foo:\n".to_string() };
                for i in 0..200000usize {
                    let t = text.clone();
                    let _ = std::panic::catch_unwind(move || {
                        let mut diags = vec![];
                        let cst = lelwel::frontend::parser::Parser::new(&t, &mut diags).parse(&mut diags);
                        lelwel::backend::format::format(&cst)
                    });
                    if i % 20000 == 0 {
                        println!("{i} format calls: rss {} MiB", rss());
                    }
                }
                return;
            }
            if mode == "changes" {
                let pool = TextPool::build(&mut root.child("pool", 0), 600);
                for i in 0..4000usize {
                    let mut steps = vec![Step::Open { doc: 0, text: pool.texts[i % pool.texts.len()].clone() }];
                    for k in 0..10 {
                        steps.push(Step::Change { doc: 0, text: pool.texts[(i * 7 + k) % pool.texts.len()].clone(), earlier: vec![] });
                        steps.push(Step::Req { doc: 0, q: if std::env::var("LEAK_FMT").is_ok() { Query::Formatting } else { Query::Hover }, line: 0, ch: 0, class: PosClass::Inside });
                    }
                    let hh = History { uris: doc_uris(), steps, abrupt_end: false };
                    let _ = execute(&hh.to_messages(), &SchedSpec::RoundRobin);
                    if i % 500 == 0 {
                        println!("{i} sessions: rss {} MiB", rss());
                    }
                }
                return;
            }
            if mode == "hist" {
                let pool = TextPool::build(&mut root.child("pool", 0), 600);
                let mut stats = Stats::default();
                let mut found = vec![];
                for hi in 0..3000usize {
                    let mut h = generate(&mut root.child("history", hi as u64), &pool, 25);
                    if std::env::var("LEAK_NOABRUPT").is_ok() {
                        h.abrupt_end = false;
                    }
                    if let Ok(k) = std::env::var("LEAK_DROPQ") {
                        h.steps.retain(|s| !matches!(s, Step::Req { q, .. } if q.name() == k));
                    }
                    if std::env::var("LEAK_ONEDOC").is_ok() {
                        h.steps.retain(|s| s.doc() == 0);
                        if !h.valid() { continue; }
                    }
                    if std::env::var("LEAK_NOFORMAT").is_ok() {
                        h.steps.retain(|s| !matches!(s, Step::Req { q: Query::Formatting, .. }));
                    }
                    let mut specs = sched_specs(&mut root.child("schedules", hi as u64), 8);
                    match std::env::var("LEAK_SPECS").as_deref() {
                        Ok("rr") => specs.retain(|s| matches!(s, SchedSpec::RoundRobin)),
                        Ok("random") => specs.retain(|s| matches!(s, SchedSpec::Random(_))),
                        Ok("pct") => specs.retain(|s| matches!(s, SchedSpec::Pct(..))),
                        _ => {}
                    }
                    if std::env::var("LEAK_NOJUDGE").is_ok() {
                        for sp in &specs {
                            let _ = execute(&h.to_messages(), sp);
                        }
                    } else {
                        run_history(hi, &h, &specs, &mut stats, &mut found);
                    }
                    if hi % 100 == 0 {
                        println!("{hi} histories: rss {} MiB, refs {}", rss(), REF_EVALS.load(std::sync::atomic::Ordering::Relaxed));
                    }
                }
                return;
            }
            for i in 0..20000u64 {
                let spec = if mode == "rr" { SchedSpec::RoundRobin } else { SchedSpec::Random(i) };
                let out = execute(&msgs, &spec);
                if mode == "judge" {
                    let mut js = JudgeStats { requests_compared: 0, diagnostics_compared: 0, ref_failed: 0, mid_surrogate_skipped: 0, formatting_checked: 0, defref_checked: 0, hover_checked: 0 };
                    let _ = judge(&h, &out, &mut js);
                }
                if i % 2000 == 0 {
                    println!("{i} executions: rss {} MiB", rss());
                }
            }
}

fn main() {
    let args: Vec<String> = std::env::args().collect();
    let code = match args.get(1).map(|s| s.as_str()) {
        Some("run") => run(vcore::tier_from_env(), vcore::seed_from_env()),
        Some("replay") => replay(&args[2]),
        Some("pool") => {
            // diagnostic: the text pool of a seed, one line per text (length, diagnostics, first line)
            let root = Rng::new(vcore::seed_from_env());
            let pool = TextPool::build(&mut root.child("pool", 0), vcore::tier_from_env().pick(150, 600));
            for (i, t) in pool.texts.iter().enumerate() {
                let d = oracle::expected_diagnostics(t).map(|d| d.len() as i64).unwrap_or(-1);
                let errs = oracle::expected_diagnostics(t).map(|d| d.iter().filter(|x| x.contains("|1|") || x.starts_with("\"E") || x.contains("E0")).count()).unwrap_or(0);
                println!("{i}\t{}\tdiags={d}\terrs~{errs}\twip={}\t{:?}", t.len(), t.contains("zz_wip"), t.lines().last().unwrap_or(""));
            }
            0
        }
        Some("leaktest") => {
            leaktest(&args);
            0
        }
        _ => {
            eprintln!("usage: lspsim run C20 | replay <file>");
            2
        }
    };
    std::process::exit(code);
}
