//! Histories (the simulated client): protocol-conforming sequences of notifications and requests
//! over a few documents, the text pool they draw from, and their translation to LSP messages.

use lsp_server::{Message, Notification, Request, RequestId};
use serde::{Deserialize, Serialize};
use serde_json::json;
use vcore::Rng;

pub const SCRATCH: &str = "/verif/target/scratch/lspsim";

#[derive(Serialize, Deserialize, Clone, Debug, PartialEq, Eq, Hash)]
pub enum PosClass {
    /// 0 <= character <= UTF-16 length of the line
    Inside,
    /// character beyond the line end (LSP: denotes the line end)
    PastEnd,
    /// character in the middle of a surrogate pair (the protocol does not define the answer)
    MidSurrogate,
}

#[derive(Serialize, Deserialize, Clone, Debug, PartialEq, Eq, Hash)]
pub enum Query {
    Hover,
    Definition,
    References { decl: bool },
    Completion,
    Formatting,
}
impl Query {
    pub fn name(&self) -> &'static str {
        match self {
            Query::Hover => "hover",
            Query::Definition => "definition",
            Query::References { .. } => "references",
            Query::Completion => "completion",
            Query::Formatting => "formatting",
        }
    }
}

#[derive(Serialize, Deserialize, Clone, Debug, PartialEq, Eq)]
pub enum Step {
    Open { doc: usize, text: String },
    /// `earlier`: content changes preceding `text` in the same notification (full texts; the protocol applies the
    /// changes of one notification in order, so the document's text afterwards is `text`)
    Change { doc: usize, text: String, #[serde(default)] earlier: Vec<String> },
    Close { doc: usize },
    Req { doc: usize, q: Query, line: u32, ch: u32, class: PosClass },
}
impl Step {
    pub fn doc(&self) -> usize {
        match self {
            Step::Open { doc, .. } | Step::Change { doc, .. } | Step::Close { doc } | Step::Req { doc, .. } => *doc,
        }
    }
}

#[derive(Serialize, Deserialize, Clone, Debug)]
pub struct History {
    pub uris: Vec<String>,
    /// the steps; `to_messages` appends didClose of everything still open, shutdown and exit
    pub steps: Vec<Step>,
    /// fault: the client vanishes after the last step (transport closed: no didClose, no shutdown, no exit)
    #[serde(default)]
    pub abrupt_end: bool,
}

impl History {
    /// protocol conformance: open only closed documents; change/close/request only open ones
    pub fn valid(&self) -> bool {
        let mut open = vec![false; self.uris.len()];
        for s in &self.steps {
            let d = s.doc();
            if d >= open.len() {
                return false;
            }
            match s {
                Step::Open { .. } => {
                    if open[d] {
                        return false;
                    }
                    open[d] = true;
                }
                Step::Close { .. } => {
                    if !open[d] {
                        return false;
                    }
                    open[d] = false;
                }
                _ => {
                    if !open[d] {
                        return false;
                    }
                }
            }
        }
        true
    }

    /// The steps actually delivered: the history's own plus the closing didClose of every document still open.
    pub fn full_steps(&self) -> Vec<Step> {
        let mut open = vec![false; self.uris.len()];
        let mut v = self.steps.clone();
        if self.abrupt_end {
            return v;
        }
        for s in &self.steps {
            match s {
                Step::Open { doc, .. } => open[*doc] = true,
                Step::Close { doc } => open[*doc] = false,
                _ => {}
            }
        }
        for (d, o) in open.iter().enumerate() {
            if *o {
                v.push(Step::Close { doc: d });
            }
        }
        v
    }

    /// id of the request of step i is i+1; shutdown has id 1_000_000
    pub fn to_messages(&self) -> Vec<Message> {
        let mut out = vec![];
        for (i, s) in self.full_steps().iter().enumerate() {
            let uri = &self.uris[s.doc()];
            match s {
                Step::Open { text, .. } => out.push(Message::Notification(Notification {
                    method: "textDocument/didOpen".into(),
                    params: json!({"textDocument": {"uri": uri, "languageId": "lelwel", "version": i as i32, "text": text}}),
                })),
                Step::Change { text, earlier, .. } => {
                    let mut changes: Vec<serde_json::Value> = earlier.iter().map(|t| json!({"text": t})).collect();
                    changes.push(json!({"text": text}));
                    out.push(Message::Notification(Notification {
                        method: "textDocument/didChange".into(),
                        params: json!({"textDocument": {"uri": uri, "version": i as i32}, "contentChanges": changes}),
                    }))
                }
                Step::Close { .. } => out.push(Message::Notification(Notification {
                    method: "textDocument/didClose".into(),
                    params: json!({"textDocument": {"uri": uri}}),
                })),
                Step::Req { q, line, ch, .. } => {
                    let pos = json!({"line": line, "character": ch});
                    let (method, params) = match q {
                        Query::Hover => ("textDocument/hover", json!({"textDocument": {"uri": uri}, "position": pos})),
                        Query::Definition => ("textDocument/definition", json!({"textDocument": {"uri": uri}, "position": pos})),
                        Query::References { decl } => (
                            "textDocument/references",
                            json!({"textDocument": {"uri": uri}, "position": pos, "context": {"includeDeclaration": decl}}),
                        ),
                        Query::Completion => ("textDocument/completion", json!({"textDocument": {"uri": uri}, "position": pos})),
                        Query::Formatting => (
                            "textDocument/formatting",
                            json!({"textDocument": {"uri": uri}, "options": {"tabSize": 4, "insertSpaces": true}}),
                        ),
                    };
                    out.push(Message::Request(Request { id: RequestId::from(i as i32 + 1), method: method.into(), params }));
                }
            }
        }
        if !self.abrupt_end {
            out.push(Message::Request(Request { id: RequestId::from(1_000_000), method: "shutdown".into(), params: json!(null) }));
            out.push(Message::Notification(Notification { method: "exit".into(), params: json!(null) }));
        }
        out
    }
}

// ------------------------------------------------------------------------------------------
// positions

/// (start byte, end byte without the '\n') of every line; a text ending in '\n' has a final empty line
pub fn line_spans(text: &str) -> Vec<(usize, usize)> {
    let mut v = vec![];
    let mut start = 0;
    for (i, b) in text.bytes().enumerate() {
        if b == b'\n' {
            v.push((start, i));
            start = i + 1;
        }
    }
    v.push((start, text.len()));
    v
}
pub fn utf16_len(s: &str) -> u32 {
    s.chars().map(|c| c.len_utf16() as u32).sum()
}
/// byte offset -> (line, UTF-16 character); independent of codespan
pub fn offset_to_pos(text: &str, off: usize) -> (u32, u32) {
    let spans = line_spans(text);
    let mut line = 0;
    for (i, (s, _)) in spans.iter().enumerate() {
        if *s <= off {
            line = i;
        } else {
            break;
        }
    }
    let (s, _) = spans[line];
    (line as u32, utf16_len(&text[s..off.min(text.len())]))
}
/// (line, UTF-16 character) -> byte offset, clamping the character to the line end; None if the line does not exist
pub fn pos_to_offset(text: &str, line: u32, ch: u32) -> Option<usize> {
    let spans = line_spans(text);
    let (s, e) = *spans.get(line as usize)?;
    let mut units = 0u32;
    for (i, c) in text[s..e].char_indices() {
        if units >= ch {
            return Some(s + i);
        }
        units += c.len_utf16() as u32;
    }
    Some(e)
}

// ------------------------------------------------------------------------------------------
// text pool

pub struct TextPool {
    pub texts: Vec<String>,
}

const FRAGMENTS: &[&str] = &[
    "",
    "\n",
    "token ;",
    "token ;\n",
    "s:",
    "start",
    "start ;",
    "'",
    "token A='",
    "/* unterminated",
    "// only a comment",
    "/// doc\n",
    "x: (",
    "right ;",
    "skip ;",
    "part ;",
    "a: b @",
    "a: <",
    "a: 1>",
    "a: ?",
    "a: #1 !2 ?3 b;",
    "token A B; start s; s: A [B",
    "token A B;\nstart s;\ns: A | ;\n",
    "token A='a' B='b';\nstart s;\ns: 'a' 'b' 'c';\n",
    "token A;\nstart s;\ns: A s2;\ns2: ;\n",
    "token Num='<n>' Plus='+';\nright '+';\nstart e;\ne: e '+' e | Num;\n",
    "token A='😀' B;\nstart s; // 𝒳 astral comment\ns: '😀' B; /* é ü */\n",
    "/* 😀 */ token A B; /* 𝒳𝒴 */ start s;\n/* 😀😀 */ s: A b; b: B; // ß\n",
    "token A B C;\nstart s;\ns: (A / B) C;\n",
    "token A B;\nstart s;\npart p;\ns: A p;\np: B;\n",
    "token A B;\nstart s;\ns: ?1 A #1 | B !1 ^;\n",
    "token A B;\nstart s;\ns: A <1 B 1>x @y;\n",
    "\u{feff}token A; start s; s: A;",
    "token A;\r\nstart s;\r\ns: A;\r\n",
    "token\tA ;\n\tstart s ;\n\ts : A ;",
];

fn mutate(rng: &mut Rng, base: &str) -> String {
    let mut t = base.to_string();
    for _ in 0..rng.range(1, 3) {
        let idx: Vec<usize> = t.char_indices().map(|(i, _)| i).chain(std::iter::once(t.len())).collect();
        let at = |rng: &mut Rng| idx[rng.below(idx.len())];
        match rng.below(7) {
            0 => {
                // delete a span
                let a = at(rng);
                let b = at(rng);
                let (a, b) = (a.min(b), a.max(b));
                let b = b.min(a + 40);
                let b = idx.iter().copied().find(|i| *i >= b).unwrap_or(t.len());
                t.replace_range(a..b, "");
            }
            1 => {
                // truncate: the user stopped typing here
                let a = at(rng);
                t.truncate(a);
            }
            2 => {
                // duplicate a line
                let lines: Vec<&str> = t.split_inclusive('\n').collect();
                if !lines.is_empty() {
                    let k = rng.below(lines.len());
                    let mut v: Vec<&str> = lines.clone();
                    v.insert(k, lines[k]);
                    t = v.concat();
                }
            }
            3 => {
                let ins = *rng.pick(&[";", ":", "|", "/", "(", ")", "[", "]", "*", "+", "^", "~", "&", "'", "token ", "start ", "?1 ", "#2 ", "!3 ", "<1 ", "1>n ", "@r ", "x", "Y", " ", "\n", "😀", "/*", "//"]);
                let a = at(rng);
                t.insert_str(a, ins);
            }
            4 => {
                // delete one ';' or ':'
                let cands: Vec<usize> = t.char_indices().filter(|(_, c)| *c == ';' || *c == ':').map(|(i, _)| i).collect();
                if !cands.is_empty() {
                    let k = cands[rng.below(cands.len())];
                    t.remove(k);
                }
            }
            5 => {
                // decorate a line start with a comment containing astral / multi-byte characters
                let lines: Vec<&str> = t.split_inclusive('\n').collect();
                if !lines.is_empty() {
                    let k = rng.below(lines.len());
                    let mut v: Vec<String> = lines.iter().map(|s| s.to_string()).collect();
                    v[k] = format!("/* 😀é𝒳 */ {}", v[k]);
                    t = v.concat();
                }
            }
            _ => {
                // swap two adjacent lines
                let mut lines: Vec<&str> = t.split_inclusive('\n').collect();
                if lines.len() >= 2 {
                    let k = rng.below(lines.len() - 1);
                    lines.swap(k, k + 1);
                    t = lines.concat();
                }
            }
        }
    }
    t
}

pub fn repo_grammars() -> Vec<(String, String)> {
    let mut files = vec![];
    let mut add_dir = |dir: &std::path::Path| {
        if let Ok(rd) = std::fs::read_dir(dir) {
            let mut v: Vec<_> = rd.flatten().map(|e| e.path()).collect();
            v.sort();
            for p in v {
                if p.extension().is_some_and(|e| e == "llw") {
                    files.push(p);
                }
            }
        }
    };
    if let Ok(rd) = std::fs::read_dir("/repo/examples") {
        let mut v: Vec<_> = rd.flatten().map(|e| e.path()).collect();
        v.sort();
        for p in v {
            add_dir(&p.join("src"));
        }
    }
    add_dir(std::path::Path::new("/repo/src/frontend"));
    add_dir(std::path::Path::new("/repo/tests/frontend"));
    files.into_iter().filter_map(|p| std::fs::read_to_string(&p).ok().map(|t| (p.display().to_string(), t))).collect()
}

impl TextPool {
    pub fn build(rng: &mut Rng, n_mutants: usize) -> TextPool {
        let repo = repo_grammars();
        let mut texts: Vec<String> = vec![];
        let small: Vec<&(String, String)> = repo.iter().filter(|(_, t)| t.len() < 2500).collect();
        let large: Vec<&(String, String)> = repo.iter().filter(|(_, t)| t.len() >= 2500).collect();
        for (_, t) in &small {
            texts.push(t.clone());
        }
        // a couple of the large ones (analysis cost), rotating with the seed
        for k in 0..2.min(large.len()) {
            texts.push(large[(rng.below(large.len()) + k) % large.len()].1.clone());
        }
        for f in FRAGMENTS {
            texts.push(f.to_string());
        }
        for _ in 0..n_mutants {
            let base = if rng.chance(1, 6) { rng.pick(FRAGMENTS).to_string() } else { rng.pick(&small).1.clone() };
            texts.push(mutate(rng, &base));
        }
        // work in progress: a rule nobody refers to yet, with repetitions and optional parts, appended to a grammar
        // (side stream: the texts above stay what they were)
        let mut side = rng.child("unused rule variants", 0);
        for (_, t) in &small {
            if let Some(v) = with_unused_rule(&mut side, t) {
                texts.push(v);
            }
        }
        let mut seen = std::collections::BTreeSet::new();
        texts.retain(|t| seen.insert(t.clone()));
        TextPool { texts }
    }
}

fn with_unused_rule(rng: &mut Rng, base: &str) -> Option<String> {
    // token names declared by the grammar (`token A B='b';`)
    let mut toks: Vec<String> = vec![];
    let mut rest = base;
    while let Some(at) = rest.find("token") {
        let after = &rest[at + 5..];
        let end = after.find(';').unwrap_or(after.len());
        for w in after[..end].split_whitespace() {
            let name: String = w.chars().take_while(|c| c.is_alphanumeric() || *c == '_').collect();
            if !name.is_empty() && name.chars().next().is_some_and(|c| c.is_uppercase()) {
                toks.push(name);
            }
        }
        rest = &after[end..];
    }
    if toks.len() < 2 || base.contains("zz_wip") {
        return None;
    }
    // distinct tokens, so that the new rule has no LL(1) conflict of its own
    toks.sort();
    toks.dedup();
    rng.shuffle(&mut toks);
    let t = |k: usize| toks[k % toks.len()].clone();
    let body = match rng.below(4) {
        1 if toks.len() >= 3 => format!("{} [{}] {}+", t(0), t(1), t(2)),
        2 if toks.len() >= 3 => format!("({} | {})* {}", t(0), t(1), t(2)),
        3 if toks.len() >= 4 => format!("{} ({} {})+ [{}]", t(0), t(1), t(2), t(3)),
        _ => format!("{}*", t(0)),
    };
    let nl = if base.ends_with('\n') { "" } else { "\n" };
    Some(format!("{base}{nl}zz_wip: {body};\n"))
}

// ------------------------------------------------------------------------------------------
// history generation

pub fn doc_uris() -> Vec<String> {
    vec![
        format!("file://{SCRATCH}/withparser/a.llw"),
        format!("file://{SCRATCH}/noparser/b.llw"),
        format!("file://{SCRATCH}/does/not/exist/c.llw"),
        // a document that was never saved (VS Code's scheme for it); swarm option, see `generate`
        "untitled:Untitled-1".to_string(),
        // the same path as the first document under another scheme (an editor's diff view)
        format!("git:{SCRATCH}/withparser/a.llw?ref=HEAD"),
    ]
}

/// create the scratch directories the file:// URIs point into (a parser.rs next to document a)
pub fn prepare_scratch() {
    let w = std::path::Path::new(SCRATCH).join("withparser");
    let n = std::path::Path::new(SCRATCH).join("noparser");
    let _ = std::fs::create_dir_all(&w);
    let _ = std::fs::create_dir_all(&n);
    let parser = "// hand-written callbacks\nimpl<'a> ParserCallbacks<'a> for Parser<'a> {\n    fn predicate_s_1(&self) -> bool { true }\n    fn predicate_a_3(&self) -> bool { true }\n    fn action_s_1(&mut self, diags: &mut Vec<Diagnostic>) {}\n    fn action_a_1(&mut self, diags: &mut Vec<Diagnostic>) {}\n    fn predicate_param_list_1(&self) -> bool { true }\n}\n";
    let _ = std::fs::write(w.join("parser.rs"), parser);
}

pub fn pick_position(rng: &mut Rng, text: &str) -> (u32, u32, PosClass) {
    let spans = line_spans(text);
    if rng.chance(1, 7) {
        // exactly on an operator or bracket, anywhere in the text
        let ops: Vec<usize> = text.char_indices().filter(|(_, c)| "*+?[]()|/^~&<>:;".contains(*c)).map(|(i, _)| i).collect();
        if !ops.is_empty() {
            let (l, c) = offset_to_pos(text, ops[rng.below(ops.len())]);
            return (l, c, PosClass::Inside);
        }
    }
    // prefer lines with content
    let mut line = rng.below(spans.len());
    if rng.chance(2, 3) {
        let nonempty: Vec<usize> = spans.iter().enumerate().filter(|(_, (s, e))| e > s).map(|(i, _)| i).collect();
        if !nonempty.is_empty() {
            line = nonempty[rng.below(nonempty.len())];
        }
    }
    let (s, e) = spans[line];
    let l = &text[s..e];
    let len16 = utf16_len(l);
    let roll = rng.below(100);
    if roll < 12 {
        return (line as u32, len16 + 1 + rng.below(3) as u32, PosClass::PastEnd);
    }
    if roll < 20 {
        // middle of a surrogate pair, if the line has an astral character
        let mut units = 0u32;
        let mut mids = vec![];
        for c in l.chars() {
            if c.len_utf16() == 2 {
                mids.push(units + 1);
            }
            units += c.len_utf16() as u32;
        }
        if !mids.is_empty() {
            return (line as u32, mids[rng.below(mids.len())], PosClass::MidSurrogate);
        }
    }
    if roll < 65 {
        // the start, inside or end of a word / symbol
        let mut cands = vec![];
        let mut units = 0u32;
        let mut prev_word = false;
        for c in l.chars() {
            let w = c.is_alphanumeric() || c == '_' || c == '\'';
            if w && !prev_word {
                cands.push(units);
                cands.push(units + 1);
            }
            if !w && prev_word {
                cands.push(units);
            }
            prev_word = w;
            units += c.len_utf16() as u32;
        }
        cands.retain(|c| *c <= len16);
        // do not land inside a surrogate pair by accident
        let valid: std::collections::BTreeSet<u32> = {
            let mut v = std::collections::BTreeSet::new();
            let mut u = 0u32;
            v.insert(0);
            for c in l.chars() {
                u += c.len_utf16() as u32;
                v.insert(u);
            }
            v
        };
        cands.retain(|c| valid.contains(c));
        if !cands.is_empty() {
            return (line as u32, cands[rng.below(cands.len())], PosClass::Inside);
        }
    }
    // uniform over the character boundaries of the line, 0..=len
    let mut bounds = vec![0u32];
    let mut u = 0u32;
    for c in l.chars() {
        u += c.len_utf16() as u32;
        bounds.push(u);
    }
    (line as u32, bounds[rng.below(bounds.len())], PosClass::Inside)
}

pub fn generate(rng: &mut Rng, pool: &TextPool, max_steps: usize) -> History {
    let uris = doc_uris();
    // swarm: one history in six also uses the non-file document
    let ndocs = if rng.chance(1, 6) { uris.len() } else { rng.range(1, uris.len() - 2) };
    let nsteps = rng.range(3, max_steps);
    let mut cur: Vec<Option<String>> = vec![None; uris.len()];
    let mut last_text: Vec<Option<String>> = vec![None; uris.len()];
    let mut steps = vec![];
    // swarm: per-history weights
    let w_change = rng.range(1, 4);
    let w_close = rng.range(0, 2);
    let w_req = rng.range(2, 8);
    // (one text in eight is a grammar with a rule nobody refers to yet)
    let wip: Vec<&String> = pool.texts.iter().filter(|t| t.contains("zz_wip")).collect();
    let pick_text = |rng: &mut Rng, not: Option<&String>| -> String {
        for _ in 0..8 {
            let t = if !wip.is_empty() && rng.chance(1, 8) { *rng.pick(&wip) } else { rng.pick(&pool.texts) };
            if Some(t) != not {
                return t.clone();
            }
        }
        format!("{}\n// edited\n", not.cloned().unwrap_or_default())
    };
    while steps.len() < nsteps {
        let d = rng.below(ndocs);
        match &cur[d] {
            None => {
                // re-opening a document often brings back exactly the text it had when it was closed
                let t = match &last_text[d] {
                    Some(t) if rng.chance(1, 3) => t.clone(),
                    _ => pick_text(rng, None),
                };
                cur[d] = Some(t.clone());
                steps.push(Step::Open { doc: d, text: t });
            }
            Some(text) => {
                let roll = rng.below(w_change + w_close + w_req);
                if roll < w_change {
                    // (one change in ten re-sends the unchanged text)
                    let t = if rng.chance(1, 10) { text.clone() } else { pick_text(rng, Some(text)) };
                    cur[d] = Some(t.clone());
                    // one change notification in twelve carries several content changes (full texts): the protocol applies
                    // them in order, so the last one is the document's text afterwards
                    let mut earlier = vec![];
                    if rng.chance(1, 12) {
                        for _ in 0..1 + rng.below(2) {
                            earlier.push(pick_text(rng, Some(&t)));
                        }
                    }
                    steps.push(Step::Change { doc: d, text: t, earlier });
                } else if roll < w_change + w_close {
                    last_text[d] = cur[d].clone();
                    cur[d] = None;
                    steps.push(Step::Close { doc: d });
                } else {
                    let q = match rng.below(10) {
                        0..=2 => Query::Hover,
                        3..=4 => Query::Definition,
                        5..=6 => Query::References { decl: rng.chance(1, 2) },
                        7..=8 => Query::Completion,
                        _ => Query::Formatting,
                    };
                    // known finding (DESIGN §7, F15): formatting some texts trips a debug-checked invariant of dprint-core and
                    // kills the analysis thread; keep that observed in one of four such cases and keep the session alive otherwise
                    let q = if q == Query::Formatting && crate::oracle::formatter_panics(text) && !rng.chance(1, 4) { Query::Hover } else { q };
                    let (line, ch, class) = if q == Query::Formatting { (0, 0, PosClass::Inside) } else { pick_position(rng, text) };
                    steps.push(Step::Req { doc: d, q, line, ch, class });
                }
            }
        }
    }
    // swarm: one history in eight ends with the client vanishing (transport closed at an arbitrary instant)
    let abrupt_end = rng.chance(1, 8);
    History { uris, steps, abrupt_end }
}
