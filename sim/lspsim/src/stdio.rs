//! Second layer (integration, scheduling NOT controlled — stated as such): the same histories framed
//! (`Content-Length`) and written to the real `lelwel-ls` binary's stdin with seeded chunk boundaries and
//! pauses (split headers, several messages per write); the replies must equal layer 1's and the process
//! must exit 0 after `exit`.

use crate::hist::History;
use lsp_server::Message;
use serde_json::{json, Value};
use std::io::{Read, Write};
use std::process::{Command, Stdio};
use vcore::Rng;

pub fn server_binary() -> std::path::PathBuf {
    std::path::PathBuf::from("/verif/target/repo/release/lelwel-ls")
}

pub fn build_server() {
    let st = Command::new("cargo")
        .args(["build", "--release", "--offline", "--features", "lsp", "--bin", "lelwel-ls", "--manifest-path", "/repo/Cargo.toml", "--target-dir", "/verif/target/repo"])
        .env("CARGO_NET_OFFLINE", "true")
        .env_remove("RUSTFLAGS")
        .current_dir("/repo")
        .stdout(Stdio::null())
        .stderr(Stdio::piped())
        .output()
        .expect("cargo");
    if !st.status.success() {
        eprintln!("{}", String::from_utf8_lossy(&st.stderr));
        vcore::harness_error("building the real lelwel-ls binary from /repo failed");
    }
}

fn frame(v: &Value) -> Vec<u8> {
    let body = serde_json::to_string(v).unwrap();
    format!("Content-Length: {}\r\n\r\n{}", body.len(), body).into_bytes()
}

fn msg_json(m: &Message) -> Value {
    let mut v = serde_json::to_value(m).unwrap();
    if let Some(o) = v.as_object_mut() {
        o.insert("jsonrpc".into(), json!("2.0"));
    }
    v
}

pub struct StdioOutcome {
    pub exit_code: Option<i32>,
    pub signal: Option<i32>,
    pub replies: Vec<Value>,
    pub stderr_tail: String,
    pub writes: usize,
}

pub fn run(h: &History, rng: &mut Rng) -> StdioOutcome {
    let mut bytes: Vec<u8> = vec![];
    bytes.extend(frame(&json!({"jsonrpc": "2.0", "id": 900_000, "method": "initialize", "params": {"capabilities": {}}})));
    bytes.extend(frame(&json!({"jsonrpc": "2.0", "method": "initialized", "params": {}})));
    for m in h.to_messages() {
        bytes.extend(frame(&msg_json(&m)));
    }
    let mut child = Command::new(server_binary()).stdin(Stdio::piped()).stdout(Stdio::piped()).stderr(Stdio::piped()).spawn().expect("spawn lelwel-ls");
    let mut stdin = child.stdin.take().unwrap();
    let mut stdout = child.stdout.take().unwrap();
    let mut stderr = child.stderr.take().unwrap();
    let reader = std::thread::spawn(move || {
        let mut b = vec![];
        let _ = stdout.read_to_end(&mut b);
        b
    });
    let ereader = std::thread::spawn(move || {
        let mut b = vec![];
        let _ = stderr.read_to_end(&mut b);
        b
    });
    // seeded pacing: chunk sizes from "one byte" to "several messages", pauses of 0..2 ms
    let mode = rng.below(4);
    let mut at = 0;
    let mut writes = 0;
    while at < bytes.len() {
        let n = match mode {
            0 => rng.range(1, 7),
            1 => rng.range(1, 64),
            2 => rng.range(64, 4096),
            _ => bytes.len(),
        }
        .min(bytes.len() - at);
        if stdin.write_all(&bytes[at..at + n]).is_err() {
            break;
        }
        let _ = stdin.flush();
        writes += 1;
        at += n;
        if rng.chance(1, 8) {
            std::thread::sleep(std::time::Duration::from_micros(rng.below(2000) as u64));
        }
    }
    drop(stdin);
    // a healthy server exits right after `exit`; a hung one is killed after 20 s
    let t0 = std::time::Instant::now();
    let status = loop {
        match child.try_wait().expect("try_wait") {
            Some(s) => break Some(s),
            None if t0.elapsed().as_secs() > 20 => {
                let _ = child.kill();
                let _ = child.wait();
                break None;
            }
            None => std::thread::sleep(std::time::Duration::from_millis(2)),
        }
    };
    let out = reader.join().unwrap_or_default();
    let err = ereader.join().unwrap_or_default();
    // parse frames
    let mut replies = vec![];
    let mut i = 0;
    while i < out.len() {
        let Some(hend) = out[i..].windows(4).position(|w| w == b"\r\n\r\n") else { break };
        let header = String::from_utf8_lossy(&out[i..i + hend]).to_string();
        let len: usize = header.lines().find_map(|l| l.strip_prefix("Content-Length: ").and_then(|x| x.trim().parse().ok())).unwrap_or(0);
        let start = i + hend + 4;
        if start + len > out.len() {
            break;
        }
        if let Ok(v) = serde_json::from_slice::<Value>(&out[start..start + len]) {
            replies.push(v);
        }
        i = start + len;
    }
    use std::os::unix::process::ExitStatusExt;
    StdioOutcome {
        exit_code: status.and_then(|s| s.code()),
        signal: status.and_then(|s| s.signal()),
        replies,
        stderr_tail: String::from_utf8_lossy(&err).lines().rev().filter(|l| l.contains("panicked") || l.contains("rror")).take(2).collect::<Vec<_>>().join(" | "),
        writes,
    }
}

/// compare with layer 1 (the in-process run under the sequential schedule): responses by id, publishDiagnostics in order
pub fn compare(layer1: &[Message], out: &StdioOutcome) -> Option<(String, String)> {
    if out.exit_code != Some(0) {
        return Some((
            "stdio.server_exit".into(),
            format!("the real lelwel-ls binary ended with exit code {:?} signal {:?}; stderr: {}", out.exit_code, out.signal, out.stderr_tail),
        ));
    }
    let mut exp_resp: Vec<(String, Value)> = vec![];
    let mut exp_pub: Vec<Value> = vec![];
    for m in layer1 {
        match m {
            Message::Response(r) => exp_resp.push((r.id.to_string(), r.result.clone().unwrap_or(Value::Null))),
            Message::Notification(n) if n.method == "textDocument/publishDiagnostics" => exp_pub.push(n.params.clone()),
            _ => {}
        }
    }
    let mut got_resp: Vec<(String, Value)> = vec![];
    let mut got_pub: Vec<Value> = vec![];
    for v in &out.replies {
        if v.get("method").and_then(|m| m.as_str()) == Some("textDocument/publishDiagnostics") {
            got_pub.push(v["params"].clone());
        } else if v.get("id").is_some() && v.get("method").is_none() {
            let id = match &v["id"] {
                Value::Number(n) => n.to_string(),
                Value::String(s) => s.clone(),
                o => o.to_string(),
            };
            if id == "900000" {
                continue; // initialize
            }
            got_resp.push((id, v.get("result").cloned().unwrap_or(Value::Null)));
        }
    }
    if got_resp != exp_resp {
        let at = got_resp.iter().zip(exp_resp.iter()).position(|(a, b)| a != b).unwrap_or(got_resp.len().min(exp_resp.len()));
        return Some(("stdio.responses_differ_from_in_process_run".into(), format!("response #{at}: over stdio {:?}, in-process {:?}", got_resp.get(at), exp_resp.get(at))));
    }
    if got_pub != exp_pub {
        return Some(("stdio.diagnostics_differ_from_in_process_run".into(), format!("{} vs {} publishDiagnostics", got_pub.len(), exp_pub.len())));
    }
    None
}
