//! Oracles of C20 evaluated over the recorded history of one execution (DESIGN.md §5/C20).

use crate::hist::*;
use crate::sim::{MainEnd, Outcome, SchedSpec};
use lsp_server::Message;
use serde_json::{Value, json};
use std::collections::{BTreeMap, HashMap};
use std::sync::{Arc, Mutex};

#[derive(Clone, Debug)]
pub struct Violation {
    /// oracle / class
    pub class: String,
    /// call site or shape that identifies the failure (part of the signature)
    pub site: String,
    /// human detail (not part of the signature)
    pub detail: String,
    pub step: usize,
}
impl Violation {
    pub fn signature(&self) -> String {
        format!("C20.{}:{}", self.class, self.site)
    }
}

// ------------------------------------------------------------------------------------------
// reference answers: the same server, a fresh session containing only (latest text, this request),
// sequential schedule. Memoised across histories.

#[derive(Clone, Debug)]
pub enum RefAnswer {
    Result(Value),
    /// a large answer (completion lists): only its hash and head are kept in the memo
    Digest(u64, String),
    /// the reference session itself did not produce an answer (analysis thread died, server crashed)
    Failed(String),
}

type RefKey = (String, u64, Query, u32, u32);
static REFS: Mutex<Option<HashMap<RefKey, Arc<RefAnswer>>>> = Mutex::new(None);
pub static REF_EVALS: std::sync::atomic::AtomicUsize = std::sync::atomic::AtomicUsize::new(0);

pub fn reference(uri: &str, text: &str, q: &Query, line: u32, ch: u32) -> Arc<RefAnswer> {
    let key: RefKey = (uri.to_string(), vcore::hash_str(text), q.clone(), line, ch);
    if let Some(r) = REFS.lock().unwrap().get_or_insert_with(HashMap::new).get(&key) {
        return r.clone();
    }
    REF_EVALS.fetch_add(1, std::sync::atomic::Ordering::Relaxed);
    let h = History {
        uris: vec![uri.to_string()],
        steps: vec![
            Step::Open { doc: 0, text: text.to_string() },
            Step::Req { doc: 0, q: q.clone(), line, ch, class: PosClass::Inside },
        ],
        abrupt_end: false,
    };
    let out = crate::sim::execute(&h.to_messages(), &SchedSpec::RoundRobin);
    let ans = if out.thread_panics > 0 {
        let (loc, msg) = out.panics.first().cloned().unwrap_or_default();
        RefAnswer::Failed(format!("analysis thread panicked: {}", vcore::panic_site(&loc, &msg)))
    } else if out.main != MainEnd::Ok {
        RefAnswer::Failed(format!("server ended with {:?}", out.main))
    } else {
        match out.replies.iter().find_map(|m| match m {
            Message::Response(r) if r.id == lsp_server::RequestId::from(2) => Some(r.clone()),
            _ => None,
        }) {
            Some(r) if r.error.is_none() => {
                let v = r.result.unwrap_or(Value::Null);
                let text = v.to_string();
                if text.len() > 1024 {
                    RefAnswer::Digest(vcore::hash_str(&text), text.chars().take(200).collect())
                } else {
                    RefAnswer::Result(v)
                }
            }
            Some(r) => RefAnswer::Failed(format!("error response {:?}", r.error)),
            None => RefAnswer::Failed("no response".into()),
        }
    };
    let ans = Arc::new(ans);
    REFS.lock().unwrap().get_or_insert_with(HashMap::new).insert(key, ans.clone());
    ans
}

// ------------------------------------------------------------------------------------------
// expected diagnostics, computed by the harness (front end + semantic pass, own UTF-16 conversion)

fn sev_num(s: codespan_reporting::diagnostic::Severity) -> u64 {
    use codespan_reporting::diagnostic::Severity::*;
    match s {
        Error | Bug => 1,
        Warning => 2,
        _ => 4,
    }
}

fn range_json(text: &str, span: &std::ops::Range<usize>) -> Value {
    let (sl, sc) = offset_to_pos(text, span.start);
    let (el, ec) = offset_to_pos(text, span.end);
    json!({"start": {"line": sl, "character": sc}, "end": {"line": el, "character": ec}})
}

/// multiset of (code, severity, range, message) the command-line check reports for `text`,
/// plus one hint per secondary label; None if the front end panics on it
pub fn expected_diagnostics(text: &str) -> Option<Vec<String>> {
    use codespan_reporting::diagnostic::LabelStyle;
    let t = text.to_string();
    let diags = std::panic::catch_unwind(move || {
        let mut diags = vec![];
        let cst = lelwel::frontend::parser::Parser::new(&t, &mut diags).parse(&mut diags);
        let _ = lelwel::frontend::sema::SemanticPass::run(&cst, &mut diags);
        diags
    })
    .ok()?;
    let mut out = vec![];
    for d in &diags {
        let range = d.labels.first().map_or(json!({"start": {"line": 0, "character": 0}, "end": {"line": 0, "character": 0}}), |l| range_json(text, &l.range));
        let mut message = d.message.clone();
        if let Some(pm) = d.labels.iter().find(|l| l.style == LabelStyle::Primary && !l.message.is_empty()) {
            message.push(' ');
            message.push_str(&pm.message);
        }
        let code = d.code.clone().map_or(Value::Null, Value::String);
        out.push(format!("{}|{}|{}|{}", code, sev_num(d.severity), range, message));
        for l in d.labels.iter().filter(|l| l.style == LabelStyle::Secondary) {
            out.push(format!("{}|4|{}|{}", code, range_json(text, &l.range), l.message));
        }
    }
    out.sort();
    Some(out)
}

fn published_diagnostics(params: &Value) -> Vec<String> {
    let mut out = vec![];
    for d in params["diagnostics"].as_array().cloned().unwrap_or_default() {
        out.push(format!("{}|{}|{}|{}", d["code"], d["severity"].as_u64().unwrap_or(0), d["range"], d["message"].as_str().unwrap_or("")));
    }
    out.sort();
    out
}

// ------------------------------------------------------------------------------------------
// ranges inside the document

fn check_ranges(v: &Value, doc_uri: &str, text: &str, in_other_doc: bool, bad: &mut Vec<String>) {
    match v {
        Value::Object(o) => {
            let other = in_other_doc || o.get("uri").and_then(|u| u.as_str()).is_some_and(|u| u != doc_uri);
            if let (Some(s), Some(e)) = (o.get("start"), o.get("end"))
                && s.get("line").is_some()
                && e.get("line").is_some()
            {
                if !other {
                    let spans = line_spans(text);
                    for p in [s, e] {
                        let line = p["line"].as_u64().unwrap_or(u64::MAX);
                        let ch = p["character"].as_u64().unwrap_or(u64::MAX);
                        match spans.get(line as usize) {
                            None => bad.push(format!("line {line} >= line count {}", spans.len())),
                            Some((a, b)) => {
                                let len = utf16_len(&text[*a..*b]) as u64;
                                if ch > len {
                                    bad.push(format!("character {ch} > line length {len} (line {line})"));
                                }
                            }
                        }
                    }
                    let key = |p: &Value| (p["line"].as_u64().unwrap_or(0), p["character"].as_u64().unwrap_or(0));
                    if key(s) > key(e) {
                        bad.push("range start after end".into());
                    }
                }
                return;
            }
            for val in o.values() {
                check_ranges(val, doc_uri, text, other, bad);
            }
        }
        Value::Array(a) => {
            for val in a {
                check_ranges(val, doc_uri, text, in_other_doc, bad);
            }
        }
        _ => {}
    }
}

// ------------------------------------------------------------------------------------------
// formatting

fn expected_format(text: &str) -> Option<String> {
    // memoised: a formatter panic inside dprint-core leaks its arena, so it must not be repeated per execution
    static MEMO: Mutex<Option<HashMap<u64, Option<Arc<String>>>>> = Mutex::new(None);
    let k = vcore::hash_str(text);
    if let Some(r) = MEMO.lock().unwrap().get_or_insert_with(HashMap::new).get(&k) {
        return r.as_ref().map(|s| s.to_string());
    }
    let r = expected_format_uncached(text);
    MEMO.lock().unwrap().get_or_insert_with(HashMap::new).insert(k, r.clone().map(Arc::new));
    r
}

fn expected_format_uncached(text: &str) -> Option<String> {
    // on an OS thread of its own: see sim::execute
    let t = text.to_string();
    std::thread::Builder::new()
        .stack_size(16 << 20)
        .spawn(move || {
            let mut diags = vec![];
            let cst = lelwel::frontend::parser::Parser::new(&t, &mut diags).parse(&mut diags);
            lelwel::backend::format::format(&cst)
        })
        .expect("spawn formatter thread")
        .join()
        .ok()
}

pub fn formatter_panics(text: &str) -> bool {
    static MEMO: Mutex<Option<HashMap<u64, bool>>> = Mutex::new(None);
    let k = vcore::hash_str(text);
    if let Some(b) = MEMO.lock().unwrap().get_or_insert_with(HashMap::new).get(&k) {
        return *b;
    }
    let b = expected_format(text).is_none();
    MEMO.lock().unwrap().get_or_insert_with(HashMap::new).insert(k, b);
    b
}

fn apply_edit(text: &str, edit: &Value) -> Option<String> {
    let r = &edit["range"];
    let s = pos_to_offset(text, r["start"]["line"].as_u64()? as u32, r["start"]["character"].as_u64()? as u32)?;
    let e = pos_to_offset(text, r["end"]["line"].as_u64()? as u32, r["end"]["character"].as_u64()? as u32)?;
    if s > e {
        return None;
    }
    let mut out = String::new();
    out.push_str(&text[..s]);
    out.push_str(edit["newText"].as_str()?);
    out.push_str(&text[e..]);
    Some(out)
}

// ------------------------------------------------------------------------------------------


// ------------------------------------------------------------------------------------------
// oracle 5: hover shows the analysis sets (node found by the harness's own walk over the public Cst API)

pub struct HoverExpect {
    pub lines: Vec<String>,
    pub range: Value,
}

pub fn expected_hover(text: &str, offset: usize) -> Option<Option<HoverExpect>> {
    use lelwel::frontend::ast::{AstNode, Regex, RuleDecl};
    use lelwel::frontend::parser::{Node, NodeRef};
    let t = text.to_string();
    std::panic::catch_unwind(move || {
        let mut diags = vec![];
        let cst = lelwel::frontend::parser::Parser::new(&t, &mut diags).parse(&mut diags);
        let sema = lelwel::frontend::sema::SemanticPass::run(&cst, &mut diags);
        // innermost rule node whose span contains the offset
        let mut cur = NodeRef::ROOT;
        let mut found: Option<NodeRef> = None;
        loop {
            let mut next = None;
            for c in cst.children(cur) {
                if let Node::Rule(..) = cst.get(c) {
                    let sp = cst.span(c);
                    if sp.start <= offset && offset < sp.end {
                        next = Some(c);
                        break;
                    }
                }
            }
            match next {
                Some(n) => {
                    found = Some(n);
                    cur = n;
                }
                None => break,
            }
        }
        let node = found?;
        let fmt = |m: &std::collections::HashMap<NodeRef, std::collections::BTreeSet<lelwel::frontend::sema::TokenName<'_>>, rustc_hash::FxBuildHasher>, id: NodeRef| -> String {
            match m.get(&id) {
                None => "{}".to_string(),
                Some(s) => {
                    let names: Vec<String> = s.iter().map(|t| t.0.to_string()).filter(|n| n == "EOF" || !n.starts_with("EOF")).collect();
                    format!("{{{}}}", names.join(", "))
                }
            }
        };
        let (set_node, with_recovery) = if let Some(r) = Regex::cast(&cst, node) {
            (r.syntax(), matches!(r, Regex::Star(_) | Regex::Plus(_) | Regex::Optional(_)))
        } else if let Some(rule) = RuleDecl::cast(&cst, node) {
            (rule.regex(&cst)?.syntax(), false)
        } else {
            return None;
        };
        let mut lines = vec![
            format!("**First:** {}", fmt(&sema.first_sets, set_node)),
            format!("**Follow:** {}", fmt(&sema.follow_sets, set_node)),
            format!("**Predict:** {}", fmt(&sema.predict_sets, set_node)),
        ];
        if with_recovery {
            lines.push(format!("**Recovery:** {}", fmt(&sema.recovery_sets, set_node)));
        }
        Some(HoverExpect { lines, range: range_json(&t, &cst.span(node)) })
    })
    .ok()
}

/// the range of the rule / token declaration node if the innermost rule node at `offset` is one (harness's own walk)
pub fn declaration_at(text: &str, offset: usize) -> Option<Option<Value>> {
    use lelwel::frontend::ast::{AstNode, RuleDecl, TokenDecl};
    use lelwel::frontend::parser::{Node, NodeRef};
    let t = text.to_string();
    std::panic::catch_unwind(move || {
        let mut diags = vec![];
        let cst = lelwel::frontend::parser::Parser::new(&t, &mut diags).parse(&mut diags);
        let mut cur = NodeRef::ROOT;
        let mut found: Option<NodeRef> = None;
        loop {
            let mut next = None;
            for c in cst.children(cur) {
                if let Node::Rule(..) = cst.get(c) {
                    let sp = cst.span(c);
                    if sp.start <= offset && offset < sp.end {
                        next = Some(c);
                        break;
                    }
                }
            }
            match next {
                Some(n) => {
                    found = Some(n);
                    cur = n;
                }
                None => break,
            }
        }
        let node = found?;
        if RuleDecl::cast(&cst, node).is_some() || TokenDecl::cast(&cst, node).is_some() {
            Some(range_json(&t, &cst.span(node)))
        } else {
            None
        }
    })
    .ok()
}

fn pos_le(a: &Value, b: &Value) -> bool {
    (a["line"].as_u64().unwrap_or(0), a["character"].as_u64().unwrap_or(0)) <= (b["line"].as_u64().unwrap_or(0), b["character"].as_u64().unwrap_or(0))
}
fn range_contains(r: &Value, line: u32, ch: u32) -> bool {
    let p = json!({"line": line, "character": ch});
    pos_le(&r["start"], &p) && pos_le(&p, &r["end"])
}
fn range_text(text: &str, r: &Value) -> Option<String> {
    let s = pos_to_offset(text, r["start"]["line"].as_u64()? as u32, r["start"]["character"].as_u64()? as u32)?;
    let e = pos_to_offset(text, r["end"]["line"].as_u64()? as u32, r["end"]["character"].as_u64()? as u32)?;
    text.get(s..e).map(|x| x.to_string())
}

pub struct JudgeStats {
    pub requests_compared: usize,
    pub diagnostics_compared: usize,
    pub ref_failed: usize,
    pub mid_surrogate_skipped: usize,
    pub formatting_checked: usize,
    pub defref_checked: usize,
    pub hover_checked: usize,
}

fn analyzer_site(out: &Outcome) -> String {
    // the first panic of the execution is the analysis thread's (the main task's, if any, comes after it)
    if out.thread_panics > 0 {
        let (loc, msg) = out.panics.first().cloned().unwrap_or_default();
        vcore::panic_site(&loc, &msg)
    } else {
        "no_thread_panic".to_string()
    }
}

pub fn judge(h: &History, out: &Outcome, stats: &mut JudgeStats) -> Vec<Violation> {
    let mut v = judge_inner(h, out, stats);
    // whatever is observed after an analysis thread has panicked is a consequence of that panic: one signature per
    // panic site (which downstream symptom shows up first depends on the history and on the interleaving)
    if out.thread_panics > 0 && !v.is_empty() {
        let site = analyzer_site(out);
        let symptoms: Vec<String> = v.iter().map(|x| x.class.clone()).collect::<std::collections::BTreeSet<_>>().into_iter().collect();
        let first = v.remove(0);
        v = vec![Violation {
            class: "analysis_thread_panic".into(),
            site,
            detail: format!("an analysis thread panicked; symptoms in this execution: {symptoms:?}; first: {}; panics in order: {:?}", first.detail, out.panics),
            step: first.step,
        }];
    }
    v
}

fn judge_inner(h: &History, out: &Outcome, stats: &mut JudgeStats) -> Vec<Violation> {
    let mut v = vec![];
    let steps = h.full_steps();
    let mut responses: BTreeMap<i32, lsp_server::Response> = BTreeMap::new();
    let mut dup_responses = vec![];
    let mut publishes: Vec<Value> = vec![];
    for m in &out.replies {
        match m {
            Message::Response(r) => {
                let id: i32 = r.id.to_string().parse().unwrap_or(-1);
                if responses.insert(id, r.clone()).is_some() {
                    dup_responses.push(id);
                }
            }
            Message::Notification(n) if n.method == "textDocument/publishDiagnostics" => publishes.push(n.params.clone()),
            _ => {}
        }
    }
    // 1. no crash
    let crashed = match &out.main {
        MainEnd::Ok => false,
        MainEnd::Panic(site) => {
            v.push(Violation {
                class: "server_crash".into(),
                site: format!("{site}|after_analysis_thread:{}", analyzer_site(out)),
                detail: format!("main task panicked; panics in order: {:?}", out.panics),
                step: usize::MAX,
            });
            true
        }
        MainEnd::Err(e) => {
            v.push(Violation { class: "server_error".into(), site: e.chars().take(80).collect(), detail: e.clone(), step: usize::MAX });
            true
        }
        MainEnd::Deadlock(m) => {
            v.push(Violation { class: "deadlock".into(), site: analyzer_site(out), detail: m.clone(), step: usize::MAX });
            true
        }
        MainEnd::Other(m) => {
            v.push(Violation { class: "execution_failed".into(), site: m.chars().take(80).collect(), detail: m.clone(), step: usize::MAX });
            true
        }
    };
    for id in dup_responses {
        v.push(Violation { class: "duplicate_response".into(), site: "same_id".into(), detail: format!("two responses for request id {id}"), step: id as usize - 1 });
    }
    // walk the history with the reference model uri -> latest text
    let mut latest: Vec<Option<String>> = vec![None; h.uris.len()];
    // publishDiagnostics notifications are matched per document, in order: the n-th one for a URI belongs to the n-th
    // open/change of that document (how publications for different documents interleave is not the property's business)
    let mut pubs_by_uri: BTreeMap<String, std::collections::VecDeque<Value>> = BTreeMap::new();
    for p in &publishes {
        pubs_by_uri.entry(p["uri"].as_str().unwrap_or("").to_string()).or_default().push_back(p.clone());
    }
    for (i, s) in steps.iter().enumerate() {
        let uri = &h.uris[s.doc()];
        match s {
            Step::Open { doc, text } | Step::Change { doc, text, .. } => {
                latest[*doc] = Some(text.clone());
                let Some(p) = pubs_by_uri.get_mut(uri.as_str()).and_then(|q| q.pop_front()) else {
                    if !crashed {
                        v.push(Violation { class: "diagnostics_missing".into(), site: analyzer_site(out), detail: format!("no publishDiagnostics for step {i}"), step: i });
                    }
                    continue;
                };
                let p = &p;
                // 3. published diagnostics equal the command-line check on the latest text
                if let Some(exp) = expected_diagnostics(text) {
                    stats.diagnostics_compared += 1;
                    let got = published_diagnostics(p);
                    if got != exp {
                        let first_diff = exp.iter().find(|e| !got.contains(e)).or_else(|| got.iter().find(|g| !exp.contains(g))).cloned().unwrap_or_default();
                        let code = first_diff.split('|').next().unwrap_or("").to_string();
                        let site = if out.thread_panics > 0 { format!("analysis_thread:{}", analyzer_site(out)) } else { format!("code={code}:got={}:expected={}", got.len(), exp.len()) };
                        v.push(Violation { class: "diagnostics_mismatch".into(), site, detail: format!("step {i}: first difference: {first_diff}; published {} expected {}", got.len(), exp.len()), step: i });
                    }
                }
                // 6. ranges inside the document
                let mut bad = vec![];
                check_ranges(p, uri, text, false, &mut bad);
                if let Some(b) = bad.first() {
                    v.push(Violation { class: "range_outside_document".into(), site: "publishDiagnostics".into(), detail: format!("step {i}: {b}"), step: i });
                }
            }
            Step::Close { doc } => latest[*doc] = None,
            Step::Req { doc, q, line, ch, class } => {
                let text = latest[*doc].clone().unwrap_or_default();
                let id = i as i32 + 1;
                let Some(r) = responses.get(&id) else {
                    if !crashed {
                        v.push(Violation { class: "unanswered_request".into(), site: q.name().into(), detail: format!("step {i}"), step: i });
                    }
                    continue;
                };
                if let Some(e) = &r.error {
                    v.push(Violation { class: "error_response".into(), site: q.name().into(), detail: format!("step {i}: {e:?}"), step: i });
                    continue;
                }
                let got = r.result.clone().unwrap_or(Value::Null);
                // 6. ranges inside the document
                let mut bad = vec![];
                check_ranges(&got, uri, &text, false, &mut bad);
                if let Some(b) = bad.first() {
                    v.push(Violation { class: "range_outside_document".into(), site: q.name().into(), detail: format!("step {i}: {b}; answer {got}"), step: i });
                }
                // 7. formatting: applying the edits yields the formatter's output for the latest text
                if *q == Query::Formatting
                    && let Some(exp) = expected_format(&text)
                {
                    stats.formatting_checked += 1;
                    let edits = got.as_array().cloned().unwrap_or_default();
                    let applied = if edits.len() == 1 { apply_edit(&text, &edits[0]) } else { None };
                    if applied.as_deref() != Some(exp.as_str()) {
                        let site = if out.thread_panics > 0 { format!("analysis_thread:{}", analyzer_site(out)) } else { format!("edits={}", edits.len()) };
                        v.push(Violation {
                            class: "formatting_wrong".into(),
                            site,
                            detail: format!("step {i}: applying the returned edit(s) does not give format(latest text); answer {}", got.to_string().chars().take(200).collect::<String>()),
                            step: i,
                        });
                    }
                }
                // 5. hover shows the analysis sets of the innermost node at the (clamped) position
                if *q == Query::Hover && *class != PosClass::MidSurrogate {
                    if let Some(off) = pos_to_offset(&text, *line, *ch) {
                        if let Some(exp) = expected_hover(&text, off) {
                            stats.hover_checked += 1;
                            match (&exp, got.is_null()) {
                                (None, true) => {}
                                (None, false) => v.push(Violation { class: "hover_sets_wrong".into(), site: "answer_where_none_expected".into(), detail: format!("step {i}: hover at {line}:{ch} answered {} but no rule node is there", got.to_string().chars().take(160).collect::<String>()), step: i }),
                                (Some(_), true) => {
                                    if out.thread_panics == 0 {
                                        v.push(Violation { class: "hover_sets_wrong".into(), site: "null_where_sets_expected".into(), detail: format!("step {i}: hover at {line}:{ch} answered null"), step: i })
                                    }
                                }
                                (Some(e), false) => {
                                    // format-agnostic: after each label (First / Follow / Predict / Recovery) the words up to the
                                    // next label are exactly the token names of the corresponding set
                                    let md = got["contents"]["value"].as_str().unwrap_or("").to_string();
                                    let labels = ["First", "Follow", "Predict", "Recovery"];
                                    let mut bad: Option<String> = None;
                                    for l in &e.lines {
                                        let label = labels.iter().find(|x| l.contains(&format!("**{x}:**"))).copied().unwrap_or("");
                                        let want: std::collections::BTreeSet<String> = l.split(['{', '}']).nth(1).unwrap_or("").split(',').map(|x| x.trim().to_string()).filter(|x| !x.is_empty()).collect();
                                        let Some(at) = md.rfind(&format!("{label}:")) else {
                                            bad = Some(format!("{label} (label missing)"));
                                            break;
                                        };
                                        let rest = &md[at + label.len() + 1..];
                                        let end = labels.iter().filter_map(|x| rest.find(&format!("{x}:"))).min().unwrap_or(rest.len());
                                        let have: std::collections::BTreeSet<String> = rest[..end].split(|c: char| !(c.is_alphanumeric() || c == '_' || c == 'ɛ')).map(|x| x.to_string()).filter(|x| !x.is_empty() && !labels.contains(&x.as_str())).collect();
                                        if have != want {
                                            bad = Some(format!("{label}: shown {have:?}, analysis {want:?}"));
                                            break;
                                        }
                                    }
                                    if let Some(b) = bad {
                                        v.push(Violation { class: "hover_sets_wrong".into(), site: b.split([':', ' ']).next().unwrap_or("").to_string(), detail: format!("step {i}: hover at {line}:{ch} shows {md:?}; {b}"), step: i });
                                    } else if got["range"] != e.range {
                                        v.push(Violation { class: "hover_sets_wrong".into(), site: "range".into(), detail: format!("step {i}: hover range {} but the node spans {}", got["range"], e.range), step: i });
                                    }
                                }
                            }
                        }
                    }
                }
                // 4. definition and references agree with each other and with the names in the text
                if let Query::References { decl } = q {
                    if *class != PosClass::MidSurrogate {
                        let locs: Vec<Value> = got.as_array().cloned().unwrap_or_default().into_iter().filter(|l| l["uri"].as_str() == Some(uri.as_str())).collect();
                        let clamped = pos_to_offset(&text, *line, *ch).map(|o| offset_to_pos(&text, o)).unwrap_or((*line, *ch));
                        // only when the cursor is on a declaration (found by the harness's own walk): every other listed location
                        // resolves by go-to-definition to exactly that declaration and covers its name or symbol; the declaration
                        // itself is listed exactly once iff includeDeclaration
                        let decl_range = pos_to_offset(&text, *line, *ch).and_then(|o| declaration_at(&text, o)).flatten();
                        if let Some(dr) = decl_range {
                            stats.defref_checked += 1;
                            let mut broken = false;
                            for l in locs.iter().filter(|l| l["range"] != dr) {
                                let (sl, sc) = (l["range"]["start"]["line"].as_u64().unwrap_or(0) as u32, l["range"]["start"]["character"].as_u64().unwrap_or(0) as u32);
                                if let RefAnswer::Result(d) = &*reference(uri, &text, &Query::Definition, sl, sc) {
                                    if d["range"] != dr {
                                        v.push(Violation { class: "definition_references_disagree".into(), site: "reference_does_not_resolve_to_declaration".into(), detail: format!("step {i}: references on the declaration {} lists {} but go-to-definition from there gives {}", dr, l["range"], d), step: i });
                                        broken = true;
                                        break;
                                    }
                                }
                            }
                            if !broken {
                                if let Some(dt) = range_text(&text, &dr) {
                                    let name: String = dt.chars().take_while(|c| c.is_alphanumeric() || *c == '_').collect();
                                    for l in locs.iter().filter(|l| l["range"] != dr) {
                                        if let Some(rt) = range_text(&text, &l["range"]) {
                                            let ok = rt == name || (rt.starts_with('\'') && dt.contains(&rt));
                                            if !ok {
                                                v.push(Violation { class: "definition_references_disagree".into(), site: "reference_text_is_not_the_declared_name".into(), detail: format!("step {i}: reference {} covers {rt:?}, the declaration is {:?}", l["range"], dt.chars().take(60).collect::<String>()), step: i });
                                                break;
                                            }
                                        }
                                    }
                                }
                                let decl_hits = locs.iter().filter(|l| l["range"] == dr).count();
                                if *decl && decl_hits != 1 {
                                    v.push(Violation { class: "definition_references_disagree".into(), site: "declaration_not_exactly_once".into(), detail: format!("step {i}: with includeDeclaration the declaration {} appears {decl_hits} times in {}", dr, got.to_string().chars().take(200).collect::<String>()), step: i });
                                }
                                if !*decl && decl_hits != 0 {
                                    v.push(Violation { class: "definition_references_disagree".into(), site: "declaration_listed_without_include".into(), detail: format!("step {i}: the declaration {} is listed although includeDeclaration is false", dr), step: i });
                                }
                            }
                        }
                    }
                }
                // 2. latest text: the answer equals the answer of a fresh session that only ever saw the latest text
                if *class == PosClass::MidSurrogate {
                    stats.mid_surrogate_skipped += 1;
                    continue;
                }
                // a position past the end of the line denotes the line end
                let (_, e) = {
                    let spans = line_spans(&text);
                    spans.get(*line as usize).copied().unwrap_or((0, 0))
                };
                let _ = e;
                let clamped = {
                    let spans = line_spans(&text);
                    match spans.get(*line as usize) {
                        Some((a, b)) => (*ch).min(utf16_len(&text[*a..*b])),
                        None => *ch,
                    }
                };
                let refans = reference(uri, &text, q, *line, clamped);
                let (differs, exp_show) = match &*refans {
                    RefAnswer::Failed(_) => {
                        stats.ref_failed += 1;
                        (false, String::new())
                    }
                    RefAnswer::Result(exp) => {
                        stats.requests_compared += 1;
                        (&got != exp, exp.to_string())
                    }
                    RefAnswer::Digest(h, head) => {
                        stats.requests_compared += 1;
                        (vcore::hash_str(&got.to_string()) != *h, head.clone())
                    }
                };
                {
                    {
                        let exp = exp_show;
                        if differs {
                            let site = if out.thread_panics > 0 {
                                format!("{}:analysis_thread:{}", q.name(), analyzer_site(out))
                            } else {
                                format!("{}:{:?}:no_thread_panic", q.name(), class)
                            };
                            v.push(Violation {
                                class: "answer_not_from_latest_text".into(),
                                site,
                                detail: format!(
                                    "step {i} {q:?} at {line}:{ch}: got {} but a fresh session on the latest text answers {}",
                                    got.to_string().chars().take(240).collect::<String>(),
                                    exp.chars().take(240).collect::<String>()
                                ),
                                step: i,
                            });
                        }
                    }
                }
            }
        }
    }
    // a publication nobody asked for: more notifications for a URI than that document had opens and changes
    for (uri, q) in &pubs_by_uri {
        if !q.is_empty() {
            v.push(Violation { class: "unexpected_publish".into(), site: String::new(), detail: format!("{} publishDiagnostics for {uri} beyond its opens and changes", q.len()), step: usize::MAX });
        }
    }
    v
}
