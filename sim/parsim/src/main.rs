//! parsim — orchestrator of the generated-parser farm (C01, C02 farm half, C03, C08, C16):
//! generate the farm from /repo's current tree, build it, run the farm binary.
//!
//!   parsim run <PROP>      (VERIF_TIER, VERIF_SEED)
//!   parsim replay <file>

use std::collections::BTreeSet;
use std::path::{Path, PathBuf};
use std::process::Command;

fn bin_dir() -> PathBuf {
    std::env::current_exe().expect("current_exe").parent().unwrap().to_path_buf()
}

fn gen(args: &[&str], exclude: &BTreeSet<String>) -> String {
    let out = Command::new(bin_dir().join("parsim-gen"))
        .args(args)
        .env("PARSIM_EXCLUDE", exclude.iter().cloned().collect::<Vec<_>>().join(","))
        .output()
        .unwrap_or_else(|e| vcore::harness_error(&format!("cannot run parsim-gen: {e}")));
    if !out.status.success() {
        eprintln!("{}", String::from_utf8_lossy(&out.stderr));
        vcore::harness_error("parsim-gen failed");
    }
    String::from_utf8_lossy(&out.stdout).to_string()
}

/// build the farm; on rustc errors return the grammar indices whose generated code does not compile
fn build(dir: &Path) -> Result<(), Vec<usize>> {
    let out = Command::new("cargo")
        .args(["build", "--offline", "-p", "farmbin"])
        .current_dir(dir)
        .env("CARGO_NET_OFFLINE", "true")
        .env_remove("RUSTFLAGS")
        .output()
        .unwrap_or_else(|e| vcore::harness_error(&format!("cannot run cargo: {e}")));
    if out.status.success() {
        return Ok(());
    }
    let err = String::from_utf8_lossy(&out.stderr).to_string();
    {
        use std::io::Write;
        if let Ok(mut f) = std::fs::OpenOptions::new().create(true).append(true).open(dir.join("build_errors.log")) {
            let _ = writeln!(f, "==== build round ====\n{}", err.lines().filter(|l| l.starts_with("error") || l.contains("-->")).collect::<Vec<_>>().join("\n"));
        }
    }
    let mut bad = BTreeSet::new();
    // only file references inside `error` blocks (warnings also mention generated files)
    let mut in_error = false;
    for line in err.lines() {
        if line.starts_with("error") {
            in_error = true;
        } else if line.starts_with("warning") {
            in_error = false;
        }
        if !in_error {
            continue;
        }
        if let Some(at) = line.find("/src/g") {
            let rest = &line[at + 6..];
            let num: String = rest.chars().take_while(|c| c.is_ascii_digit()).collect();
            if let Ok(n) = num.parse::<usize>() {
                bad.insert(n);
            }
        }
    }
    if bad.is_empty() {
        eprintln!("{}", err.lines().rev().take(60).collect::<Vec<_>>().into_iter().rev().collect::<Vec<_>>().join("\n"));
        vcore::harness_error("building the farm failed for a reason other than generated code");
    }
    Err(bad.into_iter().collect())
}

fn grammar_text_hash(dir: &Path, idx: usize) -> Option<(String, String)> {
    for c in 0..16 {
        let p = dir.join(format!("farm{c}/src/g{idx}.meta.json"));
        if let Ok(t) = std::fs::read_to_string(&p) {
            let v: serde_json::Value = serde_json::from_str(&t).ok()?;
            let text = v["text"].as_str()?.to_string();
            return Some((format!("{:016x}", vcore::hash_str(&text)), text));
        }
    }
    None
}

fn prepare(dir: &Path, gen_args: &[&str]) {
    let mut exclude: BTreeSet<String> = BTreeSet::new();
    let mut noncompiling: Vec<String> = vec![];
    for _round in 0..6 {
        gen(gen_args, &exclude);
        match build(dir) {
            Ok(()) => {
                let _ = std::fs::write(dir.join("noncompiling.json"), serde_json::to_string_pretty(&noncompiling).unwrap());
                return;
            }
            Err(bad) => {
                for b in bad {
                    if let Some((h, text)) = grammar_text_hash(dir, b) {
                        if exclude.insert(h) {
                            noncompiling.push(text);
                        }
                    }
                }
            }
        }
    }
    vcore::harness_error("the farm still does not build after excluding non-compiling grammars 6 times");
}

fn main() {
    let args: Vec<String> = std::env::args().collect();
    match args.get(1).map(|s| s.as_str()) {
        Some("run") => {
            let prop = args.get(2).cloned().unwrap_or_default();
            let tier = vcore::tier_from_env();
            let seed = vcore::seed_from_env();
            let dir = PathBuf::from(format!("/verif/target/farm/{}", tier.name()));
            let seed_s = seed.to_string();
            let dir_s = dir.display().to_string();
            prepare(&dir, &["farm", &dir_s, tier.name(), &seed_s]);
            let nc: Vec<String> = std::fs::read_to_string(dir.join("noncompiling.json")).ok().and_then(|t| serde_json::from_str(&t).ok()).unwrap_or_default();
            if !nc.is_empty() {
                println!("note: {} accepted grammar(s) yielded generated code that does not compile; excluded from the farm (C11's business, listed in {}/noncompiling.json)", nc.len(), dir.display());
            }
            let st = Command::new(dir.join("target/debug/farmbin"))
                .args(["run", &prop])
                .env("PARSIM_FARM_REPORT", dir.join("farm_report.json"))
                .status()
                .unwrap_or_else(|e| vcore::harness_error(&format!("cannot run the farm binary: {e}")));
            std::process::exit(st.code().unwrap_or(2));
        }
        Some("replay") => {
            let file = args.get(2).cloned().unwrap_or_default();
            let text = std::fs::read_to_string(&file).unwrap_or_else(|e| vcore::harness_error(&format!("cannot read {file}: {e}")));
            let v: serde_json::Value = serde_json::from_str(&text).unwrap_or_else(|e| vcore::harness_error(&format!("replay file does not parse: {e}")));
            let Some(gt) = v["grammar_text"].as_str() else { vcore::harness_error("replay file has no grammar_text") };
            let dir = PathBuf::from("/verif/target/farm/replay");
            std::fs::create_dir_all(&dir).expect("mkdir");
            let gfile = dir.join("replay.llw");
            std::fs::write(&gfile, gt).expect("write grammar");
            let dir_s = dir.display().to_string();
            let gfile_s = gfile.display().to_string();
            prepare(&dir, &["single", &dir_s, &gfile_s]);
            let st = Command::new(dir.join("target/debug/farmbin")).args(["replay", &file]).status().unwrap_or_else(|e| vcore::harness_error(&format!("cannot run the farm binary: {e}")));
            std::process::exit(st.code().unwrap_or(2));
        }
        _ => {
            eprintln!("usage: parsim run <PROP> | replay <file>");
            std::process::exit(2);
        }
    }
}
