//! What an example crate's build.rs does: `lelwel::build(<grammar>)` with OUT_DIR from the environment.
fn main() {
    let arg = std::env::args().nth(1).expect("grammar path");
    lelwel::build(&arg);
}
