//! fssim — C19: file effects and exit status of `compile` / `llw` / `build` under enumerated
//! configurations, pre-existing file states and injected I/O faults (DESIGN.md §4.3, §5/C19).
//!
//!   fssim run                      parent: enumerate, spawn workers, judge, minimise, evidence
//!   fssim worker <jobs> <results>  execute the cases of a job file (stdout/stderr are /dev/null)
//!   fssim replay <file>            re-execute one replay file in this (fresh) process
//!
//! Real code: lelwel::compile in-process through the S2 seam; the real `llw` binary and a
//! `lelwel::build` helper as processes. Simulated: outcome of every fs operation.

use lelwel_verif_shim::fs_ctl::{self, ErrKind, Fault, OpKind, OpRec};
use serde::{Deserialize, Serialize};
use serde_json::{json, Value};
use std::collections::{BTreeMap, BTreeSet};
use std::path::{Component, Path, PathBuf};
use std::time::{Duration, Instant, SystemTime};
use vcore::{Rng, Tier};

const PROP: &str = "C19";

// ------------------------------------------------------------------------------------------
// case description

#[derive(Serialize, Deserialize, Clone, Copy, Debug, PartialEq, Eq, Hash, PartialOrd, Ord)]
enum InputKind {
    File,
    Missing,
    Dir,
    InvalidUtf8,
}
#[derive(Serialize, Deserialize, Clone, Copy, Debug, PartialEq, Eq, Hash, PartialOrd, Ord)]
enum Style {
    Bare,
    SubDir,
    Abs,
}
#[derive(Serialize, Deserialize, Clone, Copy, Debug, PartialEq, Eq, Hash, PartialOrd, Ord)]
enum OutKind {
    Dot,
    Existing,
    Missing,
    AFile,
}
#[derive(Serialize, Deserialize, Clone, Copy, Debug, PartialEq, Eq, Hash, PartialOrd, Ord)]
enum Runner {
    /// lelwel::compile in-process through the seam (op log, fault injection)
    InProcess,
    /// the real llw binary (guard off), exit status observable, no seam
    Llw,
    /// a helper process calling lelwel::build (OUT_DIR = output dir)
    Build,
    /// the real llw binary under RLIMIT_FSIZE (real "disk full"), SIGXFSZ ignored
    LlwFsizeLimit,
    /// the real llw binary with a standard error stream whose writes fail (`2>/dev/full`)
    LlwStderrFull,
}
#[derive(Serialize, Deserialize, Clone, Copy, Debug, PartialEq, Eq, Hash, PartialOrd, Ord)]
enum FaultSpec {
    Err(u8),
    ShortThenErr(u8),
}
impl FaultSpec {
    fn to_fault(self) -> Fault {
        match self {
            FaultSpec::Err(k) => Fault::Err(ErrKind::ALL[k as usize]),
            FaultSpec::ShortThenErr(k) => Fault::ShortThenErr(ErrKind::ALL[k as usize]),
        }
    }
    fn name(self) -> String {
        format!("{:?}", self.to_fault())
    }
}

#[derive(Serialize, Deserialize, Clone, Debug)]
struct Case {
    idx: u64,
    runner: Runner,
    grammar: String,
    verdict_class: String,
    text: String,
    input_kind: InputKind,
    style: Style,
    check: bool,
    format: bool,
    graph: bool,
    verbose: u8,
    short: bool,
    output: OutKind,
    pre_lexer: bool,
    pre_parser: bool,
    stale_generated: bool,
    stale_gv: bool,
    faults: Vec<(usize, FaultSpec)>,
}
impl Case {
    fn flags(&self) -> String {
        let mut s = String::new();
        if self.check {
            s.push('c');
        }
        if self.format {
            s.push('f');
        }
        if self.graph {
            s.push('g');
        }
        if s.is_empty() {
            s.push('-');
        }
        s
    }
    fn generate_mode(&self) -> bool {
        !self.check && !self.format
    }
}

// ------------------------------------------------------------------------------------------
// grammar pool and the harness's own verdict

#[derive(Clone, Debug)]
struct Gram {
    name: String,
    text: String,
    has_error: bool,
    has_syntax_error: bool,
    has_warning: bool,
}
impl Gram {
    fn class(&self) -> &'static str {
        if self.has_syntax_error {
            "syntax_error"
        } else if self.has_error {
            "semantic_error"
        } else if self.has_warning {
            "warnings_only"
        } else {
            "clean"
        }
    }
}

/// The harness's own computation of "an error diagnostic is reported" (front end + semantic pass,
/// not `compile`). Returns (has_error, has_syntax_error, has_warning); None if the front end panics.
fn verdict(text: &str) -> Option<(bool, bool, bool)> {
    use codespan_reporting::diagnostic::Severity;
    let text = text.to_string();
    std::panic::catch_unwind(move || {
        let mut diags = vec![];
        let cst = lelwel::frontend::parser::Parser::new(&text, &mut diags).parse(&mut diags);
        let syntax = diags.iter().any(|d| d.severity == Severity::Error);
        let _sema = lelwel::frontend::sema::SemanticPass::run(&cst, &mut diags);
        let err = diags.iter().any(|d| d.severity == Severity::Error);
        let warn = diags.iter().any(|d| d.severity == Severity::Warning);
        (err, syntax, warn)
    })
    .ok()
}

fn grammar_pool() -> Vec<Gram> {
    let mut files: Vec<PathBuf> = vec![];
    let mut add_dir = |dir: &Path| {
        if let Ok(rd) = std::fs::read_dir(dir) {
            let mut v: Vec<_> = rd.flatten().map(|e| e.path()).collect();
            v.sort();
            for p in v {
                if p.extension().is_some_and(|e| e == "llw") {
                    files.push(p);
                }
            }
        }
    };
    if let Ok(rd) = std::fs::read_dir("/repo/examples") {
        let mut v: Vec<_> = rd.flatten().map(|e| e.path()).collect();
        v.sort();
        for p in v {
            add_dir(&p.join("src"));
        }
    }
    add_dir(Path::new("/repo/src/frontend"));
    add_dir(Path::new("/repo/tests/frontend"));
    add_dir(Path::new("/verif/fixtures/fssim"));
    let mut out = vec![];
    for f in files {
        let Ok(text) = std::fs::read_to_string(&f) else { continue };
        let Some((e, s, w)) = verdict(&text) else { continue };
        out.push(Gram {
            name: f.display().to_string(),
            text,
            has_error: e,
            has_syntax_error: s,
            has_warning: w,
        });
    }
    out
}

// ------------------------------------------------------------------------------------------
// executing one case

#[derive(Serialize, Deserialize, Clone, Debug, PartialEq, Eq)]
struct Entry {
    is_dir: bool,
    len: u64,
    hash: u64,
    mtime_ns: u128,
}
type Snapshot = BTreeMap<String, Entry>;

fn snapshot(root: &Path) -> Snapshot {
    fn walk(root: &Path, dir: &Path, out: &mut Snapshot) {
        let Ok(rd) = std::fs::read_dir(dir) else { return };
        for e in rd.flatten() {
            let p = e.path();
            let rel = p.strip_prefix(root).unwrap().to_string_lossy().to_string();
            let Ok(md) = std::fs::symlink_metadata(&p) else { continue };
            let mtime_ns = md
                .modified()
                .ok()
                .and_then(|t| t.duration_since(SystemTime::UNIX_EPOCH).ok())
                .map_or(0, |d| d.as_nanos());
            if md.is_dir() {
                out.insert(rel, Entry { is_dir: true, len: 0, hash: 0, mtime_ns: 0 });
                walk(root, &p, out);
            } else {
                let bytes = std::fs::read(&p).unwrap_or_default();
                out.insert(
                    rel,
                    Entry { is_dir: false, len: md.len(), hash: vcore::hash_bytes(&bytes), mtime_ns },
                );
            }
        }
    }
    let mut out = Snapshot::new();
    walk(root, root, &mut out);
    out
}

fn old_time() -> SystemTime {
    SystemTime::UNIX_EPOCH + Duration::from_secs(978_307_200) // 2001-01-01
}
fn write_old(path: &Path, bytes: &[u8]) {
    std::fs::write(path, bytes).expect("fixture write");
    let f = std::fs::File::options().write(true).open(path).expect("fixture open");
    f.set_modified(old_time()).expect("set mtime");
}

fn clean_path(p: &Path) -> PathBuf {
    let mut out = PathBuf::new();
    for c in p.components() {
        match c {
            Component::CurDir => {}
            Component::ParentDir => {
                out.pop();
            }
            other => out.push(other.as_os_str()),
        }
    }
    out
}

struct Layout {
    case_dir: PathBuf,
    cwd: PathBuf,
    input_arg: String,
    input_abs: PathBuf,
    gdir: PathBuf,
    output_arg: String,
    outdir_abs: PathBuf,
}

fn prepare(case: &Case, scratch: &Path) -> Layout {
    let case_dir = scratch.join(format!("c{}", case.idx));
    let _ = std::fs::remove_dir_all(&case_dir);
    let cwd = case_dir.join("cwd");
    std::fs::create_dir_all(&cwd).expect("mkdir cwd");
    let (gdir, input_arg) = match case.style {
        Style::Bare => (cwd.clone(), "g.llw".to_string()),
        Style::SubDir => (cwd.join("src"), "src/g.llw".to_string()),
        Style::Abs => {
            let d = case_dir.join("abs");
            let a = d.join("g.llw").display().to_string();
            (d, a)
        }
    };
    std::fs::create_dir_all(&gdir).expect("mkdir gdir");
    let input_abs = gdir.join("g.llw");
    match case.input_kind {
        InputKind::File => write_old(&input_abs, case.text.as_bytes()),
        InputKind::Missing => {}
        InputKind::Dir => std::fs::create_dir_all(&input_abs).expect("mkdir input"),
        InputKind::InvalidUtf8 => {
            let mut b = case.text.as_bytes().to_vec();
            b.extend_from_slice(&[0x20, 0xff, 0xfe, 0x0a]);
            write_old(&input_abs, &b)
        }
    }
    let (outdir_abs, output_arg) = match case.output {
        OutKind::Dot => (cwd.clone(), ".".to_string()),
        OutKind::Existing => {
            let d = cwd.join("out");
            std::fs::create_dir_all(&d).expect("mkdir out");
            (d, "out".to_string())
        }
        OutKind::Missing => (cwd.join("nodir").join("out"), "nodir/out".to_string()),
        OutKind::AFile => {
            let f = cwd.join("afile");
            write_old(&f, b"i am a regular file\n");
            (f, "afile".to_string())
        }
    };
    if case.pre_lexer {
        write_old(&gdir.join("lexer.rs"), b"// hand-edited lexer, do not clobber\n");
    }
    if case.pre_parser {
        write_old(&gdir.join("parser.rs"), b"// hand-edited parser callbacks, do not clobber\n");
    }
    if case.stale_generated && outdir_abs.is_dir() {
        write_old(&outdir_abs.join("generated.rs"), b"// stale generated.rs of an earlier run\n");
    }
    if case.stale_gv {
        write_old(&cwd.join("parser.gv"), b"digraph { stale }\n");
    }
    Layout { case_dir, cwd, input_arg, input_abs, gdir, output_arg, outdir_abs }
}

#[derive(Serialize, Deserialize, Clone, Debug, PartialEq, Eq)]
enum Ret {
    /// compile returned Ok(true) / process exited 0
    Success,
    /// compile returned Ok(false) / process exited non-zero without a panic
    Failure,
    /// compile returned Err(kind) (the CLI turns this into a non-zero exit)
    IoError(String),
    /// panic (exit status 101), with location and message
    Panic(String),
    /// process killed by a signal
    Signal(i32),
}
impl Ret {
    fn is_success(&self) -> bool {
        matches!(self, Ret::Success)
    }
}

#[derive(Serialize, Deserialize, Clone, Debug)]
struct OpOut {
    seq: usize,
    kind: String,
    path: String,
    bytes: usize,
    result: String,
    injected: Option<String>,
    in_unwind: bool,
}

#[derive(Serialize, Deserialize, Clone, Debug)]
struct Observation {
    ret: Ret,
    ops: Vec<OpOut>,
    /// relative (to the case dir) paths of every attempted create/write/rewrite, from the op log
    attempted: Vec<String>,
    /// relative paths that differ between the before and after snapshots (bytes, mtime, existence)
    changed: Vec<String>,
    io_failure: bool,
    faults_fired: Vec<String>,
}

fn rel_to_case(l: &Layout, p: &Path) -> String {
    let abs = if p.is_absolute() { p.to_path_buf() } else { l.cwd.join(p) };
    let abs = clean_path(&abs);
    match abs.strip_prefix(&l.case_dir) {
        Ok(r) => r.to_string_lossy().to_string(),
        Err(_) => format!("OUTSIDE:{}", abs.display()),
    }
}

fn diff_snap(before: &Snapshot, after: &Snapshot) -> Vec<String> {
    let mut out = BTreeSet::new();
    for (k, a) in after {
        match before.get(k) {
            None => {
                out.insert(k.clone());
            }
            Some(b) if b != a => {
                out.insert(k.clone());
            }
            _ => {}
        }
    }
    for k in before.keys() {
        if !after.contains_key(k) {
            out.insert(k.clone());
        }
    }
    out.into_iter().collect()
}

fn op_out(l: &Layout, o: &OpRec) -> OpOut {
    OpOut {
        seq: o.seq,
        kind: format!("{:?}", o.kind),
        path: rel_to_case(l, &o.path),
        bytes: o.bytes,
        result: match &o.result {
            Ok(n) => format!("ok:{n}"),
            Err(e) => format!("err:{e}"),
        },
        injected: o.injected.map(|f| format!("{f:?}")),
        in_unwind: o.in_unwind,
    }
}

fn exec_in_process(case: &Case, scratch: &Path) -> Observation {
    let l = prepare(case, scratch);
    let before = snapshot(&l.case_dir);
    std::env::set_current_dir(&l.cwd).expect("chdir");
    let plan: BTreeMap<usize, Fault> = case.faults.iter().map(|(i, f)| (*i, f.to_fault())).collect();
    fs_ctl::install(plan);
    let (input, output, check, format, verbose, graph, short) =
        (l.input_arg.clone(), l.output_arg.clone(), case.check, case.format, case.verbose, case.graph, case.short);
    let r = std::panic::catch_unwind(move || lelwel::compile(&input, &output, check, format, verbose, graph, short));
    let log = fs_ctl::finish();
    std::env::set_current_dir("/").expect("chdir /");
    let after = snapshot(&l.case_dir);
    let ret = match r {
        Ok(Ok(true)) => Ret::Success,
        Ok(Ok(false)) => Ret::Failure,
        Ok(Err(e)) => Ret::IoError(format!("{:?}", e.kind())),
        Err(_) => {
            let (loc, msg) = vcore::take_last_panic().unwrap_or_default();
            Ret::Panic(format!("{loc}: {msg}"))
        }
    };
    let ops: Vec<OpOut> = log.iter().map(|o| op_out(&l, o)).collect();
    let attempted: BTreeSet<String> = log
        .iter()
        .filter(|o| matches!(o.kind, OpKind::Create | OpKind::Write | OpKind::WriteFile))
        .map(|o| rel_to_case(&l, &o.path))
        .collect();
    let io_failure = log.iter().any(|o| o.result.is_err()) || matches!(ret, Ret::IoError(_));
    let faults_fired = log
        .iter()
        .filter_map(|o| o.injected.map(|f| format!("{f:?}@{:?}", o.kind)))
        .collect();
    let obs = Observation {
        ret,
        ops,
        attempted: attempted.into_iter().collect(),
        changed: diff_snap(&before, &after),
        io_failure,
        faults_fired,
    };
    let _ = std::fs::remove_dir_all(&l.case_dir);
    obs
}

fn exec_process(case: &Case, scratch: &Path, llw: &Path, helper: &Path) -> Observation {
    use std::process::{Command, Stdio};
    let l = prepare(case, scratch);
    let before = snapshot(&l.case_dir);
    let mut args: Vec<String> = vec![];
    if case.check {
        args.push("-c".into());
    }
    if case.format {
        args.push("-f".into());
    }
    if case.graph {
        args.push("-g".into());
    }
    if case.short {
        args.push("-s".into());
    }
    for _ in 0..case.verbose {
        args.push("-v".into());
    }
    args.push("-o".into());
    args.push(l.output_arg.clone());
    args.push(l.input_arg.clone());
    let mut cmd = match case.runner {
        Runner::Llw => {
            let mut c = Command::new(llw);
            c.args(&args);
            c
        }
        Runner::LlwFsizeLimit => {
            // real "disk full": files may not grow beyond 4 KiB; SIGXFSZ ignored so that write() fails with EFBIG
            let mut c = Command::new("/bin/sh");
            let quoted: Vec<String> = args.iter().map(|a| format!("'{}'", a.replace('\'', "'\\''"))).collect();
            c.arg("-c").arg(format!("trap '' XFSZ; ulimit -f 8; exec '{}' {}", llw.display(), quoted.join(" ")));
            c
        }
        Runner::LlwStderrFull => {
            let mut c = Command::new("/bin/sh");
            let quoted: Vec<String> = args.iter().map(|a| format!("'{}'", a.replace('\'', "'\\''"))).collect();
            c.arg("-c").arg(format!("exec '{}' {} 2>/dev/full", llw.display(), quoted.join(" ")));
            c
        }
        Runner::Build => {
            let mut c = Command::new(helper);
            c.arg(&l.input_arg).env("OUT_DIR", &l.output_arg);
            c
        }
        Runner::InProcess => unreachable!(),
    };
    cmd.current_dir(&l.cwd).stdin(Stdio::null()).stdout(Stdio::null()).stderr(Stdio::piped());
    let out = cmd.output().expect("spawn");
    let after = snapshot(&l.case_dir);
    let stderr = String::from_utf8_lossy(&out.stderr).to_string();
    let ret = {
        use std::os::unix::process::ExitStatusExt;
        match (out.status.code(), out.status.signal()) {
            (Some(0), _) => Ret::Success,
            (Some(101), _) => {
                let line = stderr.lines().find(|l| l.contains("panicked at")).unwrap_or("").to_string();
                let msg = stderr.lines().skip_while(|l| !l.contains("panicked at")).nth(1).unwrap_or("").to_string();
                // "thread 'main' (1234) panicked at src/x.rs:1:2:" -> "src/x.rs:1:2"
                let loc = line.split("panicked at ").nth(1).unwrap_or("").trim_end_matches(':').to_string();
                Ret::Panic(format!("{loc}: {msg}"))
            }
            (Some(_), _) => Ret::Failure,
            (None, Some(s)) => Ret::Signal(s),
            _ => Ret::Failure,
        }
    };
    // an I/O failure of the real tool is visible as clap's "error: invalid value" wrapper around the io::Error
    // an I/O failure of the real tool shows the io::Error's text ("... (os error N)"), through clap's
    // error wrapper (llw) or bare (lelwel::build)
    let io_failure = !matches!(ret, Ret::Success) && stderr.contains("(os error ");
    let obs = Observation {
        ret,
        ops: vec![],
        attempted: vec![],
        changed: diff_snap(&before, &after),
        io_failure: io_failure || matches!(case.runner, Runner::LlwFsizeLimit | Runner::LlwStderrFull),
        faults_fired: match case.runner {
            Runner::LlwFsizeLimit => vec!["RLIMIT_FSIZE".into()],
            Runner::LlwStderrFull => vec!["stderr_writes_fail".into()],
            _ => vec![],
        },
    };
    let _ = std::fs::remove_dir_all(&l.case_dir);
    let _ = l.input_abs;
    let _ = l.gdir;
    let _ = l.outdir_abs;
    obs
}

// ------------------------------------------------------------------------------------------
// the oracle: the statement of C19 as a table over (mode, verdict, pre-state)

#[derive(Clone, Debug)]
struct Violation {
    clause: &'static str,
    detail: String,
}

fn expected_paths(case: &Case) -> (String, String, String, String, String) {
    // relative-to-case-dir paths of generated.rs, lexer.rs, parser.rs, parser.gv, input
    let gdir = match case.style {
        Style::Bare => "cwd".to_string(),
        Style::SubDir => "cwd/src".to_string(),
        Style::Abs => "abs".to_string(),
    };
    let out = match case.output {
        OutKind::Dot => "cwd".to_string(),
        OutKind::Existing => "cwd/out".to_string(),
        OutKind::Missing => "cwd/nodir/out".to_string(),
        OutKind::AFile => "cwd/afile".to_string(),
    };
    (
        format!("{out}/generated.rs"),
        format!("{gdir}/lexer.rs"),
        format!("{gdir}/parser.rs"),
        "cwd/parser.gv".to_string(),
        format!("{gdir}/g.llw"),
    )
}

fn judge(case: &Case, g: (bool, bool, bool), obs: &Observation) -> Vec<Violation> {
    let (has_error, _syntax, _warn) = g;
    let readable = case.input_kind == InputKind::File;
    let e = has_error; // only meaningful if readable
    let mut w: BTreeSet<String> = obs.attempted.iter().cloned().collect();
    w.extend(obs.changed.iter().cloned());
    let (p_gen, p_lex, p_par, p_gv, p_in) = expected_paths(case);
    let mut v = vec![];
    let base = |p: &str| p.rsplit('/').next().unwrap_or(p).to_string();

    // 1. check mode creates or modifies no file
    if case.check {
        for p in &w {
            v.push(Violation { clause: "check_mode_writes", detail: base(p) });
        }
    }
    // unreadable input: nothing written
    if !readable {
        for p in &w {
            v.push(Violation { clause: "unreadable_input_writes", detail: base(p) });
        }
        if obs.ret.is_success() {
            v.push(Violation { clause: "unreadable_input_success", detail: format!("{:?}", case.input_kind) });
        }
        if let Ret::Panic(m) = &obs.ret {
            v.push(Violation { clause: "unreadable_input_panic", detail: panic_site(m) });
        }
        return dedup(v);
    }
    // 2. the generated parser is written only when the grammar has no error (and only in generate mode)
    if w.contains(&p_gen) && !(case.generate_mode() && !e) {
        v.push(Violation {
            clause: "generated_written_wrongly",
            detail: if e { "grammar_has_error".into() } else { "not_generate_mode".into() },
        });
    }
    // 3. skeletons only when neither exists (and generate mode, no error); existing ones untouched
    for (p, name) in [(&p_lex, "lexer.rs"), (&p_par, "parser.rs")] {
        if w.contains(p) {
            let ok = case.generate_mode() && !e && !case.pre_lexer && !case.pre_parser;
            if !ok {
                let why = if case.pre_lexer || case.pre_parser {
                    if (name == "lexer.rs" && case.pre_lexer) || (name == "parser.rs" && case.pre_parser) {
                        "clobbered_existing"
                    } else {
                        "created_although_sibling_exists"
                    }
                } else if e {
                    "grammar_has_error"
                } else {
                    "not_generate_mode"
                };
                v.push(Violation { clause: "skeleton_written_wrongly", detail: format!("{name}:{why}") });
            }
        }
    }
    // 4. nothing outside the promised set
    let mut allowed: BTreeSet<&str> = BTreeSet::new();
    if case.generate_mode() {
        allowed.insert(&p_gen);
        allowed.insert(&p_lex);
        allowed.insert(&p_par);
    }
    if case.graph && !case.check && !case.format {
        allowed.insert(&p_gv);
    }
    if case.format && !case.check {
        allowed.insert(&p_in);
    }
    for p in &w {
        if !allowed.contains(p.as_str()) && !case.check {
            // (check-mode writes were reported by clause 1 already)
            v.push(Violation { clause: "unpromised_write", detail: base(p) });
        }
    }
    // 5. exit status: in check (without -f) and generate mode, success <=> no error diagnostic
    if !case.format {
        match &obs.ret {
            Ret::Success if e => v.push(Violation { clause: "status_success_despite_error", detail: String::new() }),
            Ret::Success => {}
            Ret::Panic(m) if !e && !obs.io_failure => {
                v.push(Violation { clause: "status_panic_without_error", detail: panic_site(m) })
            }
            Ret::Signal(s) if !e => v.push(Violation { clause: "status_signal_without_error", detail: s.to_string() }),
            Ret::Failure | Ret::IoError(_) if !e && !obs.io_failure => {
                v.push(Violation { clause: "status_failure_without_error", detail: format!("{:?}", obs.ret) })
            }
            _ => {}
        }
    }
    dedup(v)
}

fn panic_site(m: &str) -> String {
    // "/repo/src/backend/graphviz.rs:31: called `Option::unwrap()` on a `None` value" -> file + message, no line
    let m = m.replace("/repo/", "");
    let mut parts = m.splitn(2, ": ");
    let loc = parts.next().unwrap_or("");
    let msg = parts.next().unwrap_or("");
    let file = loc.split(':').next().unwrap_or(loc);
    format!("{file}|{}", msg.chars().take(60).collect::<String>())
}

fn dedup(mut v: Vec<Violation>) -> Vec<Violation> {
    v.sort_by(|a, b| (a.clause, &a.detail).cmp(&(b.clause, &b.detail)));
    v.dedup_by(|a, b| a.clause == b.clause && a.detail == b.detail);
    v
}

fn fault_desc(case: &Case, obs: &Observation) -> String {
    if case.faults.is_empty() && obs.faults_fired.is_empty() {
        "none".to_string()
    } else if !obs.faults_fired.is_empty() {
        obs.faults_fired.join("+")
    } else {
        "planned_not_fired".to_string()
    }
}

fn signature(case: &Case, viol: &Violation, obs: &Observation) -> String {
    format!(
        "C19.{}:{}:flags={}:verdict={}:runner={}:fault={}",
        viol.clause,
        viol.detail,
        case.flags(),
        if case.input_kind == InputKind::File { case.verdict_class.as_str() } else { "unreadable" },
        match case.runner {
            Runner::InProcess => "compile",
            Runner::Llw => "llw",
            Runner::Build => "build",
            Runner::LlwFsizeLimit => "llw_fsize",
            Runner::LlwStderrFull => "llw_stderr_full",
        },
        fault_desc(case, obs)
    )
}

// ------------------------------------------------------------------------------------------
// worker

#[derive(Serialize, Deserialize, Clone, Debug)]
struct ResultRec {
    idx: u64,
    verdict: Option<(bool, bool, bool)>,
    obs: Observation,
}

thread_local! {
    static VERDICTS: std::cell::RefCell<BTreeMap<u64, Option<(bool, bool, bool)>>> = const { std::cell::RefCell::new(BTreeMap::new()) };
}
fn run_case(case: &Case, scratch: &Path, llw: &Path, helper: &Path) -> ResultRec {
    let verdict = if case.input_kind == InputKind::File || case.input_kind == InputKind::InvalidUtf8 {
        let k = vcore::hash_str(&case.text);
        VERDICTS.with(|c| *c.borrow_mut().entry(k).or_insert_with(|| verdict(&case.text)))
    } else {
        Some((false, false, false))
    };
    let obs = match case.runner {
        Runner::InProcess => exec_in_process(case, scratch),
        _ => exec_process(case, scratch, llw, helper),
    };
    ResultRec { idx: case.idx, verdict, obs }
}

fn worker(jobs: &Path, results: &Path) {
    vcore::quiet_panics();
    let scratch = jobs.parent().unwrap().join(format!("w{}", std::process::id()));
    std::fs::create_dir_all(&scratch).expect("scratch");
    let (llw, helper) = tool_paths();
    let text = std::fs::read_to_string(jobs).expect("read jobs");
    let mut out = String::new();
    for line in text.lines() {
        let case: Case = serde_json::from_str(line).expect("job parses");
        let r = run_case(&case, &scratch, &llw, &helper);
        out.push_str(&serde_json::to_string(&r).unwrap());
        out.push('\n');
    }
    std::fs::write(results, out).expect("write results");
    let _ = std::fs::remove_dir_all(&scratch);
}

fn tool_paths() -> (PathBuf, PathBuf) {
    let llw = PathBuf::from(std::env::var("FSSIM_LLW").unwrap_or_else(|_| "/verif/target/repo/release/llw".into()));
    let me = std::env::current_exe().expect("current_exe");
    let helper = me.parent().unwrap().join("buildhelper");
    (llw, helper)
}

// ------------------------------------------------------------------------------------------
// parent: enumeration

fn flag_combos() -> Vec<(bool, bool, bool)> {
    let mut v = vec![];
    for c in [false, true] {
        for f in [false, true] {
            for g in [false, true] {
                v.push((c, f, g));
            }
        }
    }
    v
}

struct Pool {
    by_class: BTreeMap<&'static str, Vec<Gram>>,
}
impl Pool {
    fn new() -> Pool {
        let mut by_class: BTreeMap<&'static str, Vec<Gram>> = BTreeMap::new();
        for g in grammar_pool() {
            by_class.entry(g.class()).or_default().push(g);
        }
        for v in by_class.values_mut() {
            v.sort_by_key(|g| (g.text.len(), g.name.clone()));
        }
        Pool { by_class }
    }
}

const CLASSES: [&str; 7] =
    ["clean", "warnings_only", "syntax_error", "semantic_error", "missing", "directory", "invalid_utf8"];

fn make_case(
    idx: u64,
    runner: Runner,
    pool: &Pool,
    class: &str,
    pick: usize,
    dims: (bool, bool, bool, u8, bool, OutKind, bool, bool, bool, bool, Style),
) -> Option<Case> {
    let (check, format, graph, verbose, short, output, pre_lexer, pre_parser, stale_generated, stale_gv, style) = dims;
    let (gclass, input_kind) = match class {
        "missing" => ("clean", InputKind::Missing),
        "directory" => ("clean", InputKind::Dir),
        "invalid_utf8" => ("clean", InputKind::InvalidUtf8),
        c => (c, InputKind::File),
    };
    let gs = pool.by_class.get(gclass)?;
    let g = if dims.3 > 0 { &gs[pick % gs.len().min(4)] } else { &gs[pick % gs.len()] };
    Some(Case {
        idx,
        runner,
        grammar: g.name.clone(),
        verdict_class: gclass.to_string(),
        text: g.text.clone(),
        input_kind,
        style,
        check,
        format,
        graph,
        verbose,
        short,
        output,
        pre_lexer,
        pre_parser,
        stale_generated,
        stale_gv,
        faults: vec![],
    })
}

fn enumerate_table(tier: Tier, seed: u64, pool: &Pool) -> Vec<Case> {
    let mut cases = vec![];
    let mut idx = 0u64;
    let outs = [OutKind::Dot, OutKind::Existing, OutKind::Missing, OutKind::AFile];
    let styles = [Style::Bare, Style::SubDir, Style::Abs];
    let per_class = tier.pick(1usize, 4usize);
    for (check, format, graph) in flag_combos() {
        for verbose in 0..3u8 {
            for short in [false, true] {
                for output in outs {
                    for (pre_lexer, pre_parser) in [(false, false), (true, false), (false, true), (true, true)] {
                        for (stale_generated, stale_gv) in [(false, false), (true, false), (false, true), (true, true)] {
                            for class in CLASSES {
                                for k in 0..per_class {
                                    // the grammar of a class and the path style rotate with the configuration index and the seed
                                    let hsh = vcore::h(&[seed, idx, k as u64]);
                                    let style = match tier {
                                        Tier::Quick => styles[(hsh % 3) as usize],
                                        Tier::Thorough => styles[((hsh % 3) as usize + k) % 3],
                                    };
                                    if let Some(c) = make_case(
                                        idx,
                                        Runner::InProcess,
                                        pool,
                                        class,
                                        (hsh >> 8) as usize,
                                        (check, format, graph, verbose, short, output, pre_lexer, pre_parser, stale_generated, stale_gv, style),
                                    ) {
                                        cases.push(c);
                                        idx += 1;
                                    }
                                }
                            }
                        }
                    }
                }
            }
        }
    }
    cases
}

fn enumerate_real(tier: Tier, seed: u64, pool: &Pool, start_idx: u64) -> Vec<Case> {
    let mut cases = vec![];
    let mut idx = start_idx;
    let outs = [OutKind::Dot, OutKind::Existing, OutKind::Missing, OutKind::AFile];
    let styles = [Style::Bare, Style::SubDir, Style::Abs];
    let mut n = 0u64;
    for (check, format, graph) in flag_combos() {
        for output in outs {
            for (pre_lexer, pre_parser) in [(false, false), (true, false), (false, true), (true, true)] {
                for (stale_generated, stale_gv) in [(false, false), (true, true)] {
                    for class in CLASSES {
                        n += 1;
                        let hsh = vcore::h(&[seed, 0xEA1, n]);
                        // quick: a seeded quarter of the real-binary table; thorough: all of it
                        if tier == Tier::Quick && hsh % 4 != 0 {
                            continue;
                        }
                        let verbose = ((hsh >> 4) % 3) as u8;
                        let short = (hsh >> 7) & 1 == 1;
                        let style = styles[((hsh >> 9) % 3) as usize];
                        if let Some(c) = make_case(
                            idx,
                            Runner::Llw,
                            pool,
                            class,
                            (hsh >> 12) as usize,
                            (check, format, graph, verbose, short, output, pre_lexer, pre_parser, stale_generated, stale_gv, style),
                        ) {
                            cases.push(c);
                            idx += 1;
                        }
                    }
                }
            }
        }
    }
    // lelwel::build (build.rs entry point): generate mode only
    for output in outs {
        for (pre_lexer, pre_parser) in [(false, false), (true, false), (false, true), (true, true)] {
            for stale in [false, true] {
                for class in CLASSES {
                    for k in 0..tier.pick(1usize, 3usize) {
                        let hsh = vcore::h(&[seed, 0xB01D, idx, k as u64]);
                        let style = styles[((hsh >> 9) % 3) as usize];
                        if let Some(c) = make_case(
                            idx,
                            Runner::Build,
                            pool,
                            class,
                            (hsh >> 12) as usize,
                            (false, false, false, 0, false, output, pre_lexer, pre_parser, stale, false, style),
                        ) {
                            cases.push(c);
                            idx += 1;
                        }
                    }
                }
            }
        }
    }
    // real disk-full: RLIMIT_FSIZE on the real binary, generate / check / graph, clean and erroneous grammars
    for (check, format, graph) in flag_combos() {
        if format {
            continue;
        }
        for (pre_lexer, pre_parser) in [(false, false), (true, true)] {
            for class in ["clean", "warnings_only", "semantic_error"] {
                for k in 0..tier.pick(1usize, 4usize) {
                    let hsh = vcore::h(&[seed, 0xF51E, idx, k as u64]);
                    if let Some(c) = make_case(
                        idx,
                        Runner::LlwFsizeLimit,
                        pool,
                        class,
                        (hsh >> 12) as usize,
                        (check, format, graph, 0, false, OutKind::Existing, pre_lexer, pre_parser, false, false, Style::SubDir),
                    ) {
                        cases.push(c);
                        idx += 1;
                    }
                }
            }
        }
    }
    // a standard error stream that cannot be written (diagnostics cannot be shown): the exit status may be failure
    // for any reason, but never success while the grammar has an error; file clauses unchanged
    for (check, format, graph) in flag_combos() {
        if format {
            continue;
        }
        for class in ["clean", "warnings_only", "syntax_error", "semantic_error"] {
            for k in 0..tier.pick(2usize, 6usize) {
                let hsh = vcore::h(&[seed, 0x57DE, idx, k as u64]);
                if let Some(c) = make_case(
                    idx,
                    Runner::LlwStderrFull,
                    pool,
                    class,
                    (hsh >> 12) as usize,
                    (check, format, graph, 0, (hsh >> 3) & 1 == 1, OutKind::Existing, false, false, false, false, Style::SubDir),
                ) {
                    cases.push(c);
                    idx += 1;
                }
            }
        }
    }
    cases
}

/// Fault enumeration: for every fault-free in-process run with a non-empty op log (one
/// representative per op-log shape class), every op index x every fault kind.
fn enumerate_faults(tier: Tier, base: &[(Case, ResultRec)], start_idx: u64, seed: u64) -> Vec<Case> {
    let mut out = vec![];
    let mut idx = start_idx;
    // group the fault-free in-process runs by everything that shapes the op log except the grammar
    // (verbosity, display style and -- in the quick tier -- the path style do not reach the file system);
    // representatives per group: the run with the smallest grammar (quick), plus median and largest (thorough)
    let mut groups: BTreeMap<String, Vec<&(Case, ResultRec)>> = BTreeMap::new();
    for pair in base {
        let (case, res) = pair;
        if case.runner != Runner::InProcess || res.obs.ops.is_empty() {
            continue;
        }
        let key = format!(
            "{}|{:?}|{}|{:?}|{}{}{}{}|{}",
            case.flags(),
            case.output,
            if tier == Tier::Quick { String::new() } else { format!("{:?}", case.style) },
            case.input_kind,
            case.pre_lexer as u8,
            case.pre_parser as u8,
            case.stale_generated as u8,
            case.stale_gv as u8,
            case.verdict_class,
        );
        groups.entry(key).or_default().push(pair);
    }
    let mut reps: Vec<&(Case, ResultRec)> = vec![];
    for (_, mut v) in groups {
        v.sort_by_key(|(c, _)| (c.text.len(), c.idx));
        reps.push(v[0]);
        if tier == Tier::Thorough && v.len() > 2 {
            reps.push(v[v.len() / 2]);
            // the largest grammar has the longest op log (one Write per 8 KiB of generated code)
            if v[v.len() - 1].1.obs.ops.len() <= 24 {
                reps.push(v[v.len() - 1]);
            }
        }
    }
    reps.sort_by_key(|(c, _)| c.idx);
    for (case, res) in reps {
        for op in &res.obs.ops {
            let kinds: Vec<FaultSpec> = match op.kind.as_str() {
                "Write" => {
                    let mut v: Vec<FaultSpec> = (0..5u8).map(FaultSpec::Err).collect();
                    v.extend([FaultSpec::ShortThenErr(2), FaultSpec::ShortThenErr(4)]);
                    v
                }
                "WriteFile" => vec![FaultSpec::Err(1), FaultSpec::Err(2), FaultSpec::Err(4), FaultSpec::ShortThenErr(2)],
                _ => (0..5u8).map(FaultSpec::Err).collect(),
            };
            for k in kinds {
                let mut c = case.clone();
                c.idx = idx;
                c.faults = vec![(op.seq, k)];
                out.push(c);
                idx += 1;
            }
        }
        // thorough: seeded pairs of faults
        if tier == Tier::Thorough && res.obs.ops.len() >= 2 {
            let mut rng = Rng::new(vcore::h(&[seed, 0xFA17, case.idx]));
            for _ in 0..6 {
                let a = rng.below(res.obs.ops.len());
                let b = rng.below(res.obs.ops.len());
                if a == b {
                    continue;
                }
                let mut c = case.clone();
                c.idx = idx;
                c.faults = vec![
                    (res.obs.ops[a.min(b)].seq, FaultSpec::Err(3)), // Interrupted first (retried by write_all)
                    (res.obs.ops[a.max(b)].seq, FaultSpec::Err(rng.below(5) as u8)),
                ];
                out.push(c);
                idx += 1;
            }
        }
    }
    out
}

fn run_batch(cases: &[Case], tag: &str) -> Vec<ResultRec> {
    use std::process::{Command, Stdio};
    if cases.is_empty() {
        return vec![];
    }
    let nworkers = vcore::workers().min(cases.len()).max(1);
    let dir = PathBuf::from(format!("/verif/target/scratch/fssim/{}-{}", std::process::id(), tag));
    let _ = std::fs::remove_dir_all(&dir);
    std::fs::create_dir_all(&dir).expect("scratch dir");
    let me = std::env::current_exe().expect("current_exe");
    // static round-robin by index, not work stealing: the set of runs and every result are independent of the worker count
    let mut parts: Vec<Vec<&Case>> = vec![vec![]; nworkers];
    for (i, c) in cases.iter().enumerate() {
        parts[i % nworkers].push(c);
    }
    let mut children = vec![];
    for (w, part) in parts.iter().enumerate() {
        let jobs = dir.join(format!("jobs{w}.jsonl"));
        let results = dir.join(format!("results{w}.jsonl"));
        let mut s = String::new();
        for c in part {
            s.push_str(&serde_json::to_string(c).unwrap());
            s.push('\n');
        }
        std::fs::write(&jobs, s).expect("write jobs");
        let child = Command::new(&me)
            .arg("worker")
            .arg(&jobs)
            .arg(&results)
            .stdin(Stdio::null())
            .stdout(Stdio::null())
            .stderr(Stdio::null())
            .spawn()
            .expect("spawn worker");
        children.push((child, results, part.len()));
    }
    let mut out = vec![];
    for (mut child, results, n) in children {
        let st = child.wait().expect("wait worker");
        let text = std::fs::read_to_string(&results).unwrap_or_default();
        let recs: Vec<ResultRec> = text.lines().filter_map(|l| serde_json::from_str(l).ok()).collect();
        if !st.success() || recs.len() != n {
            vcore::harness_error(&format!("fssim worker failed ({st:?}), {} of {n} results", recs.len()));
        }
        out.extend(recs);
    }
    let _ = std::fs::remove_dir_all(&dir);
    out.sort_by_key(|r| r.idx);
    out
}

// ------------------------------------------------------------------------------------------
// minimisation: reset configuration dimensions / drop faults / shrink the grammar while the same
// violation class (clause + detail) persists

fn reproduces(case: &Case, clause: &str, detail: &str) -> Option<Observation> {
    let r = run_batch(std::slice::from_ref(case), "min");
    let r = r.into_iter().next()?;
    let vs = judge(case, r.verdict?, &r.obs);
    vs.iter().any(|v| v.clause == clause && v.detail == detail).then_some(r.obs)
}

fn minimise(case: &Case, viol: &Violation, pool: &Pool) -> Case {
    let mut best = case.clone();
    let try_apply = |best: &mut Case, f: &dyn Fn(&mut Case)| {
        let mut c = best.clone();
        f(&mut c);
        if serde_json::to_string(&c).unwrap() != serde_json::to_string(best).unwrap()
            && reproduces(&c, viol.clause, &viol.detail).is_some()
        {
            *best = c;
        }
    };
    try_apply(&mut best, &|c| c.faults.clear());
    if best.faults.len() > 1 {
        for i in 0..best.faults.len() {
            try_apply(&mut best, &|c| {
                if i < c.faults.len() {
                    c.faults.remove(i);
                }
            });
        }
    }
    try_apply(&mut best, &|c| c.verbose = 0);
    try_apply(&mut best, &|c| c.short = false);
    try_apply(&mut best, &|c| c.stale_generated = false);
    try_apply(&mut best, &|c| c.stale_gv = false);
    try_apply(&mut best, &|c| c.pre_lexer = false);
    try_apply(&mut best, &|c| c.pre_parser = false);
    try_apply(&mut best, &|c| c.output = OutKind::Dot);
    try_apply(&mut best, &|c| c.style = Style::Bare);
    try_apply(&mut best, &|c| c.graph = false);
    try_apply(&mut best, &|c| c.format = false);
    try_apply(&mut best, &|c| c.check = false);
    // smallest grammar of the same verdict class that still shows it
    if let Some(gs) = pool.by_class.get(best.verdict_class.as_str()) {
        for g in gs.iter().take(6) {
            if g.text.len() >= best.text.len() {
                break;
            }
            let before = best.text.len();
            try_apply(&mut best, &|c| {
                c.text = g.text.clone();
                c.grammar = g.name.clone();
            });
            if best.text.len() < before {
                break;
            }
        }
    }
    best
}

// ------------------------------------------------------------------------------------------

fn build_tools() {
    use std::process::Command;
    // the real llw binary, guard off, from /repo's current working tree
    let st = Command::new("cargo")
        .args(["build", "--release", "--offline", "--features", "cli", "--bin", "llw", "--manifest-path", "/repo/Cargo.toml", "--target-dir", "/verif/target/repo"])
        .env("CARGO_NET_OFFLINE", "true")
        .env_remove("RUSTFLAGS")
        .current_dir("/repo")
        .stdout(std::process::Stdio::null())
        .stderr(std::process::Stdio::piped())
        .output()
        .expect("cargo");
    if !st.status.success() {
        eprintln!("{}", String::from_utf8_lossy(&st.stderr));
        vcore::harness_error("building the real llw binary from /repo failed");
    }
}

fn parent() -> i32 {
    let t0 = Instant::now();
    let tier = vcore::tier_from_env();
    let seed = vcore::seed_from_env();
    vcore::quiet_panics();
    build_tools();
    let pool = Pool::new();
    for c in ["clean", "warnings_only", "syntax_error", "semantic_error"] {
        if pool.by_class.get(c).is_none_or(|v| v.is_empty()) {
            vcore::harness_error(&format!("grammar pool has no grammar of class {c}"));
        }
    }
    let mut verdicts = vcore::Verdicts::new(PROP);

    // 1. fault-free table, in-process (op log) ------------------------------------------------
    let table = enumerate_table(tier, seed, &pool);
    let table_res = run_batch(&table, "table");
    eprintln!("fssim: table {} cases done at {:.1}s", table.len(), t0.elapsed().as_secs_f64());
    // 2. real binary / build helper / RLIMIT_FSIZE ------------------------------------------------
    let real = enumerate_real(tier, seed, &pool, table.len() as u64);
    let real_res = run_batch(&real, "real");
    eprintln!("fssim: real {} cases done at {:.1}s", real.len(), t0.elapsed().as_secs_f64());
    // 3. single (and seeded double) faults ----------------------------------------------------------
    let base: Vec<(Case, ResultRec)> = table.iter().cloned().zip(table_res.iter().cloned()).collect();
    let faults = enumerate_faults(tier, &base, (table.len() + real.len()) as u64, seed);
    let fault_res = run_batch(&faults, "faults");
    eprintln!("fssim: faults {} cases done at {:.1}s", faults.len(), t0.elapsed().as_secs_f64());

    let mut all: Vec<(Case, ResultRec)> = base;
    all.extend(real.into_iter().zip(real_res));
    all.extend(faults.into_iter().zip(fault_res));

    // judge ---------------------------------------------------------------------------------
    let mut n_viol_runs = 0usize;
    let mut fired: BTreeMap<String, usize> = BTreeMap::new();
    let mut planned_not_fired = 0usize;
    let mut distinct: BTreeSet<u64> = BTreeSet::new();
    let mut by_runner: BTreeMap<String, usize> = BTreeMap::new();
    let mut by_ret: BTreeMap<String, usize> = BTreeMap::new();
    let mut ops_total = 0usize;
    let mut probes: BTreeMap<&'static str, usize> = BTreeMap::new();
    let mut observations: BTreeMap<String, usize> = BTreeMap::new();
    let mut reported: BTreeSet<(String, String, String)> = BTreeSet::new();
    let mut samples: Vec<Value> = vec![];
    for (case, res) in &all {
        *by_runner.entry(format!("{:?}", case.runner)).or_default() += 1;
        *by_ret
            .entry(match &res.obs.ret {
                Ret::Success => "success".to_string(),
                Ret::Failure => "failure".into(),
                Ret::IoError(k) => format!("io_error:{k}"),
                Ret::Panic(_) => "panic".into(),
                Ret::Signal(s) => format!("signal:{s}"),
            })
            .or_default() += 1;
        ops_total += res.obs.ops.len();
        for f in &res.obs.faults_fired {
            *fired.entry(f.clone()).or_default() += 1;
        }
        if !case.faults.is_empty() && res.obs.faults_fired.is_empty() {
            planned_not_fired += 1;
        }
        let Some(g) = res.verdict else {
            // the front end itself panicked on this grammar text: not C19's business, skip (counted)
            *probes.entry("frontend_panicked_in_harness_verdict").or_default() += 1;
            continue;
        };
        // non-trivial = the run touched the file system through the seam or changed a file, or failed;
        // distinct = by (configuration without grammar, op-log shape, fault plan, result)
        let shape: Vec<String> = res.obs.ops.iter().map(|o| format!("{}:{}:{}", o.kind, o.path, o.result)).collect();
        let nontrivial = !res.obs.ops.is_empty() || !res.obs.changed.is_empty() || !res.obs.ret.is_success();
        if nontrivial {
            distinct.insert(vcore::hash_str(&format!(
                "{:?}|{}|{:?}|{:?}|{:?}|{}{}{}{}|{}|{:?}|{}|{:?}|{:?}|{:?}",
                case.runner, case.flags(), case.output, case.style, case.input_kind,
                case.pre_lexer as u8, case.pre_parser as u8, case.stale_generated as u8, case.stale_gv as u8,
                case.verdict_class, case.faults, shape.join(","), res.obs.ret, res.obs.changed, case.verbose
            )));
        }
        // reach probes
        let w_gen = res.obs.attempted.iter().chain(res.obs.changed.iter()).any(|p| p.ends_with("generated.rs"));
        if w_gen {
            *probes.entry("generated_rs_written").or_default() += 1;
        }
        if res.obs.changed.iter().any(|p| p.ends_with("lexer.rs")) {
            *probes.entry("skeletons_created").or_default() += 1;
        }
        if (case.pre_lexer || case.pre_parser) && case.generate_mode() && !g.0 && case.input_kind == InputKind::File {
            *probes.entry("generate_with_preexisting_skeleton").or_default() += 1;
        }
        if res.obs.changed.iter().any(|p| p.ends_with("parser.gv")) {
            *probes.entry("graph_file_written").or_default() += 1;
        }
        if res.obs.ops.iter().any(|o| o.in_unwind) {
            *probes.entry("fs_op_during_unwind").or_default() += 1;
        }
        if !res.obs.faults_fired.is_empty() && res.obs.ret.is_success() {
            *probes.entry("fault_fired_yet_success_reported").or_default() += 1;
            // observed, not judged (DESIGN §5/C19): an error swallowed by BufWriter's Drop
            if res.obs.changed.iter().any(|p| p.ends_with("generated.rs")) {
                *observations.entry("success_reported_although_a_write_to_generated.rs_failed (not judged: C19 does not speak about completeness)".into()).or_default() += 1;
            }
        }
        if samples.len() < 4 && (!case.faults.is_empty() || samples.len() < 2) && !res.obs.ops.is_empty() {
            samples.push(json!({
                "runner": format!("{:?}", case.runner), "flags": case.flags(), "verbose": case.verbose, "short": case.short,
                "grammar": case.grammar, "verdict": case.verdict_class, "input_kind": format!("{:?}", case.input_kind),
                "style": format!("{:?}", case.style), "output": format!("{:?}", case.output),
                "pre_lexer": case.pre_lexer, "pre_parser": case.pre_parser, "stale_generated": case.stale_generated, "stale_gv": case.stale_gv,
                "faults": case.faults.iter().map(|(i, f)| format!("op#{i}:{}", f.name())).collect::<Vec<_>>(),
                "ret": format!("{:?}", res.obs.ret),
                "op_log": res.obs.ops.iter().map(|o| format!("#{} {} {} {}B -> {}{}", o.seq, o.kind, o.path, o.bytes, o.result, o.injected.as_ref().map(|i| format!(" [injected {i}]")).unwrap_or_default())).collect::<Vec<_>>(),
                "changed": res.obs.changed,
            }));
        }
        let vs = judge(case, g, &res.obs);
        if vs.is_empty() {
            continue;
        }
        n_viol_runs += 1;
        for viol in vs {
            let sig = signature(case, &viol, &res.obs);
            if verdicts.is_known(&sig) {
                verdicts.violation(&sig, &json!({}));
                continue;
            }
            // one report per (clause, detail, flags) — the first (lowest index) case, minimised
            let key = (viol.clause.to_string(), viol.detail.clone(), format!("{}|{:?}|{}", case.flags(), case.runner, fault_desc(case, &res.obs)));
            if !reported.insert(key) {
                continue;
            }
            let min = minimise(case, &viol, &pool);
            let obs = reproduces(&min, viol.clause, &viol.detail);
            let Some(obs) = obs else {
                vcore::harness_error(&format!("minimised case for {sig} does not reproduce (determinism bug in the harness)"));
            };
            let msig = signature(&min, &viol, &obs);
            verdicts.violation(
                &msig,
                &json!({
                    "engine": "fssim",
                    "seed": seed,
                    "violation": {"clause": viol.clause, "detail": viol.detail},
                    "case": min,
                    "observed": obs,
                    "original_case_idx": case.idx,
                }),
            );
        }
    }
    for (k, v) in &observations {
        println!("OBSERVATION (not judged): {k}: {v} runs");
    }
    for p in [
        "generated_rs_written",
        "skeletons_created",
        "generate_with_preexisting_skeleton",
        "graph_file_written",
        "fault_fired_yet_success_reported",
    ] {
        if probes.get(p).copied().unwrap_or(0) == 0 {
            println!("WARNING: reach probe '{p}' is at 0");
        }
    }
    let code = verdicts.finish();
    let wall = t0.elapsed().as_secs_f64();
    let evaluations = all.len();
    vcore::Evidence {
        property_id: PROP.into(),
        tier,
        seed,
        level: "fault_enumeration",
        coverage: json!({
            "evaluations": evaluations,
            "distinct_nontrivial": distinct.len(),
            "run_digest": format!("{:016x}", distinct.iter().fold(0u64, |a, h| a ^ vcore::mix(*h))),
            "rule": "evaluation = one execution of compile (in-process through the fs seam), llw (real binary) or lelwel::build (helper process) on one configuration of the table check x format x graph x verbosity x short x output{., existing dir, missing dir, a file} x pre-state{none, lexer.rs, parser.rs, both} x stale{generated.rs, parser.gv} x verdict{clean, warnings only, syntax error, semantic error, missing, directory, invalid UTF-8} x path style, fault-free; then every single fault (each op index x each error kind / short write) on one representative per op-log shape class, and (thorough) seeded pairs. Non-trivial = touched the file system, changed a file or did not succeed; distinct = different (runner, configuration without grammar, op-log shape incl. per-op results, fault plan, result, changed-file set).",
            "exhaustive": true,
            "samples": samples,
            "table_configurations": table.len(),
            "by_runner": by_runner,
            "by_result": by_ret,
            "fs_ops_logged": ops_total,
            "faults_fired_by_kind_and_op": fired,
            "fault_plans_that_did_not_fire": planned_not_fired,
            "reach_probes": probes,
            "observations_not_judged": observations,
            "runs_with_violation": n_viol_runs,
            "runs_per_hour": (evaluations as f64 / wall * 3600.0) as u64,
            "simulated_time_s": 0,
            "simulated_time_note": "no clock or timer is involved in compile/llw/build",
            "real_vs_stub": {
                "real": ["lelwel::compile", "lelwel::build (helper process)", "llw binary built from /repo with the guard off", "front end, analysis, RustOutput, GraphvizOutput", "the file system itself (pass-through on a scratch dir)"],
                "simulated": ["outcome of each File::create / write / flush / read_to_string / fs::write (fault plan)", "RLIMIT_FSIZE for real disk-full on the binary"],
            },
        }),
        assumptions: vec![
            "E (an error diagnostic is reported) is computed by the harness with Parser + SemanticPass, not taken from compile".into(),
            "Path::exists / try_exists cannot be intercepted by the std shadow; they observe the real scratch directory (pass-through design)".into(),
            "exit status under a real or injected I/O failure may be failure although the grammar has no error; nothing else is relaxed".into(),
            "stdout/stderr output of the tool is not judged".into(),
        ],
        wall_s: wall,
        violations: verdicts.count_new(),
        extra: json!({"engine": "fssim"}),
    }
    .write();
    println!(
        "fssim: tier={} seed={} runs={} distinct_nontrivial={} violations_new={} known={} wall={:.1}s",
        tier.name(),
        seed,
        evaluations,
        distinct.len(),
        verdicts.count_new(),
        verdicts.known_hits.len(),
        wall
    );
    code
}

fn replay(file: &Path) -> i32 {
    vcore::quiet_panics();
    build_tools();
    let text = std::fs::read_to_string(file).unwrap_or_else(|e| vcore::harness_error(&format!("cannot read {file:?}: {e}")));
    let v: Value = serde_json::from_str(&text).unwrap_or_else(|e| vcore::harness_error(&format!("replay file does not parse: {e}")));
    let case: Case = serde_json::from_value(v["case"].clone()).unwrap_or_else(|e| vcore::harness_error(&format!("no case in replay file: {e}")));
    let clause = v["violation"]["clause"].as_str().unwrap_or("").to_string();
    let detail = v["violation"]["detail"].as_str().unwrap_or("").to_string();
    let r = run_batch(std::slice::from_ref(&case), "replay").into_iter().next().unwrap();
    let vs = r.verdict.map(|g| judge(&case, g, &r.obs)).unwrap_or_default();
    println!("replayed case: flags={} runner={:?} grammar={} ret={:?}", case.flags(), case.runner, case.grammar, r.obs.ret);
    for o in &r.obs.ops {
        println!("  op#{} {} {} {}B -> {} {:?}", o.seq, o.kind, o.path, o.bytes, o.result, o.injected);
    }
    println!("  changed: {:?}", r.obs.changed);
    if vs.iter().any(|x| x.clause == clause && x.detail == detail) {
        println!("VIOLATION property={PROP} replay={}", file.display());
        println!("  reproduced: {clause}:{detail}");
        1
    } else {
        println!("not reproduced: {clause}:{detail} (violations now: {:?})", vs);
        0
    }
}

fn main() {
    let args: Vec<String> = std::env::args().collect();
    let code = match args.get(1).map(|s| s.as_str()) {
        Some("run") => parent(),
        Some("worker") => {
            worker(Path::new(&args[2]), Path::new(&args[3]));
            0
        }
        Some("replay") => replay(Path::new(&args[2])),
        _ => {
            eprintln!("usage: fssim run | worker <jobs> <results> | replay <file>");
            2
        }
    };
    std::process::exit(code);
}
