//! Common machinery: one-integer PRNG with splittable sub-streams, tier/seed handling,
//! evidence writer, known-findings file, violation/replay reporting.

use serde_json::{json, Value};
use std::path::{Path, PathBuf};

pub const VERIF_ROOT: &str = "/verif";

// ---------------------------------------------------------------------------------------------
// PRNG

#[inline]
pub fn mix(mut z: u64) -> u64 {
    z = z.wrapping_add(0x9E37_79B9_7F4A_7C15);
    z = (z ^ (z >> 30)).wrapping_mul(0xBF58_476D_1CE4_E5B9);
    z = (z ^ (z >> 27)).wrapping_mul(0x94D0_49BB_1331_11EB);
    z ^ (z >> 31)
}
pub fn hash_str(s: &str) -> u64 {
    let mut h: u64 = 0xcbf2_9ce4_8422_2325;
    for b in s.bytes() {
        h ^= b as u64;
        h = h.wrapping_mul(0x0000_0100_0000_01B3);
    }
    mix(h)
}
pub fn hash_bytes(s: &[u8]) -> u64 {
    let mut h: u64 = 0xcbf2_9ce4_8422_2325;
    for b in s {
        h ^= *b as u64;
        h = h.wrapping_mul(0x0000_0100_0000_01B3);
    }
    mix(h)
}
/// stateless hash of a few integers
pub fn h(parts: &[u64]) -> u64 {
    let mut acc = 0x243F_6A88_85A3_08D3u64;
    for p in parts {
        acc = mix(acc ^ mix(*p));
    }
    acc
}

/// splitmix64 stream; `child` derives an independent stream from (this stream's *seed*, label, index)
/// without consuming from the parent, so sub-streams do not shift when a component draws more.
#[derive(Clone, Debug)]
pub struct Rng {
    seed: u64,
    state: u64,
}
impl Rng {
    pub fn new(seed: u64) -> Self {
        Rng { seed, state: mix(seed ^ 0xD6E8_FEB8_6659_FD93) }
    }
    pub fn seed(&self) -> u64 {
        self.seed
    }
    pub fn child(&self, label: &str, idx: u64) -> Rng {
        Rng::new(h(&[self.seed, hash_str(label), idx]))
    }
    pub fn next_u64(&mut self) -> u64 {
        self.state = self.state.wrapping_add(0x9E37_79B9_7F4A_7C15);
        let mut z = self.state;
        z = (z ^ (z >> 30)).wrapping_mul(0xBF58_476D_1CE4_E5B9);
        z = (z ^ (z >> 27)).wrapping_mul(0x94D0_49BB_1331_11EB);
        z ^ (z >> 31)
    }
    /// uniform in 0..n (n > 0)
    pub fn below(&mut self, n: usize) -> usize {
        debug_assert!(n > 0);
        ((self.next_u64() as u128 * n as u128) >> 64) as usize
    }
    pub fn range(&mut self, lo: usize, hi_incl: usize) -> usize {
        lo + self.below(hi_incl - lo + 1)
    }
    /// true with probability num/den
    pub fn chance(&mut self, num: usize, den: usize) -> bool {
        self.below(den) < num
    }
    pub fn pick<'a, T>(&mut self, xs: &'a [T]) -> &'a T {
        &xs[self.below(xs.len())]
    }
    pub fn shuffle<T>(&mut self, xs: &mut [T]) {
        for i in (1..xs.len()).rev() {
            let j = self.below(i + 1);
            xs.swap(i, j);
        }
    }
}

// ---------------------------------------------------------------------------------------------
// seed / tier

#[derive(Clone, Copy, Debug, PartialEq, Eq)]
pub enum Tier {
    Quick,
    Thorough,
}
impl Tier {
    pub fn name(self) -> &'static str {
        match self {
            Tier::Quick => "quick",
            Tier::Thorough => "thorough",
        }
    }
    pub fn pick<T>(self, quick: T, thorough: T) -> T {
        match self {
            Tier::Quick => quick,
            Tier::Thorough => thorough,
        }
    }
}
pub fn seed_from_env() -> u64 {
    match std::env::var("VERIF_SEED") {
        Ok(s) => s.trim().parse::<u64>().unwrap_or_else(|_| {
            eprintln!("harness error: VERIF_SEED is not an unsigned integer: {s:?}");
            std::process::exit(2)
        }),
        Err(_) => 1,
    }
}
pub fn tier_from_env() -> Tier {
    match std::env::var("VERIF_TIER").as_deref() {
        Ok("thorough") => Tier::Thorough,
        Ok("quick") | Err(_) => Tier::Quick,
        Ok(other) => {
            eprintln!("harness error: VERIF_TIER must be quick|thorough, got {other:?}");
            std::process::exit(2)
        }
    }
}
pub fn workers() -> usize {
    std::env::var("VERIF_WORKERS")
        .ok()
        .and_then(|s| s.parse().ok())
        .unwrap_or_else(|| std::thread::available_parallelism().map(|n| n.get()).unwrap_or(4))
}

// ---------------------------------------------------------------------------------------------
// evidence

pub struct Evidence {
    pub property_id: String,
    pub tier: Tier,
    pub seed: u64,
    pub level: &'static str,
    pub coverage: Value,
    pub assumptions: Vec<String>,
    pub wall_s: f64,
    pub violations: usize,
    pub extra: Value,
}
impl Evidence {
    pub fn write(&self) {
        let mut v = json!({
            "property_id": self.property_id,
            "tier": self.tier.name(),
            "seed": self.seed,
            "level": self.level,
            "coverage": self.coverage,
            "assumptions": self.assumptions,
            "wall_s": (self.wall_s * 1000.0).round() / 1000.0,
            "violations": self.violations,
        });
        if let (Some(o), Some(e)) = (v.as_object_mut(), self.extra.as_object()) {
            for (k, val) in e {
                o.insert(k.clone(), val.clone());
            }
        }
        let dir = Path::new(VERIF_ROOT).join("evidence");
        let _ = std::fs::create_dir_all(&dir);
        let path = dir.join(format!("{}.json", self.property_id));
        let tmp = dir.join(format!(".{}.json.tmp", self.property_id));
        std::fs::write(&tmp, serde_json::to_string_pretty(&v).unwrap()).expect("write evidence");
        std::fs::rename(&tmp, &path).expect("rename evidence");
    }
}

// ---------------------------------------------------------------------------------------------
// known findings + violation reporting

#[derive(Clone, Debug)]
pub struct KnownFinding {
    pub property_id: String,
    /// "known" (suppresses, prints KNOWN-FINDING) or "fixed" (suppresses nothing)
    pub status: String,
    /// exact signature of the violation (engine-specific, identifies input/call site/history)
    pub signature: String,
    pub what: String,
}
pub fn load_known_findings() -> Vec<KnownFinding> {
    let path = Path::new(VERIF_ROOT).join("known_findings.json");
    let Ok(text) = std::fs::read_to_string(&path) else {
        return vec![];
    };
    let v: Value = match serde_json::from_str(&text) {
        Ok(v) => v,
        Err(e) => {
            eprintln!("harness error: known_findings.json does not parse: {e}");
            std::process::exit(2);
        }
    };
    let mut out = vec![];
    for f in v["findings"].as_array().cloned().unwrap_or_default() {
        out.push(KnownFinding {
            property_id: f["property_id"].as_str().unwrap_or("").to_string(),
            status: f["status"].as_str().unwrap_or("known").to_string(),
            signature: f["signature"].as_str().unwrap_or("").to_string(),
            what: f["what"].as_str().unwrap_or("").to_string(),
        });
    }
    out
}

/// Collects the violations of one check run, separates known findings, prints the protocol lines
/// and computes the exit code.
pub struct Verdicts {
    pub property_id: String,
    known: Vec<KnownFinding>,
    pub new_violations: Vec<(String, PathBuf)>,
    pub known_hits: std::collections::BTreeMap<String, usize>,
}
impl Verdicts {
    pub fn new(property_id: &str) -> Self {
        Verdicts {
            property_id: property_id.to_string(),
            known: load_known_findings()
                .into_iter()
                .filter(|k| k.property_id == property_id && k.status == "known")
                .collect(),
            new_violations: vec![],
            known_hits: Default::default(),
        }
    }
    pub fn is_known(&self, signature: &str) -> bool {
        self.known.iter().any(|k| k.signature == signature)
    }
    /// Register a violation. Returns true if it is new (not a listed known finding).
    pub fn violation(&mut self, signature: &str, replay: &Value) -> bool {
        if self.is_known(signature) {
            *self.known_hits.entry(signature.to_string()).or_default() += 1;
            return false;
        }
        if self.new_violations.iter().any(|(s, _)| s == signature) {
            return true;
        }
        let dir = Path::new(VERIF_ROOT).join("replays").join(&self.property_id);
        let _ = std::fs::create_dir_all(&dir);
        let name = format!("{:016x}.json", hash_str(signature));
        let path = dir.join(name);
        let mut r = replay.clone();
        if let Some(o) = r.as_object_mut() {
            o.insert("property_id".into(), json!(self.property_id));
            o.insert("signature".into(), json!(signature));
        }
        std::fs::write(&path, serde_json::to_string_pretty(&r).unwrap()).expect("write replay");
        self.new_violations.push((signature.to_string(), path));
        true
    }
    pub fn count_new(&self) -> usize {
        self.new_violations.len()
    }
    /// Print KNOWN-FINDING / VIOLATION lines; return the process exit code.
    pub fn finish(&self) -> i32 {
        for k in &self.known {
            if let Some(n) = self.known_hits.get(&k.signature) {
                println!(
                    "KNOWN-FINDING: property={} {} [signature={} observed={}x]",
                    self.property_id, k.what, k.signature, n
                );
            }
        }
        for (sig, path) in &self.new_violations {
            println!("VIOLATION property={} replay={}", self.property_id, path.display());
            println!("  signature: {sig}");
        }
        if self.new_violations.is_empty() {
            0
        } else {
            1
        }
    }
}

pub fn harness_error(msg: &str) -> ! {
    eprintln!("harness error: {msg}");
    std::process::exit(2)
}

/// Install a panic hook that prints nothing (panics of the code under test are results that the
/// engines record themselves) but remembers the last message/location for the report.
pub fn quiet_panics() {
    std::panic::set_hook(Box::new(|info| {
        let loc = info
            .location()
            .map(|l| format!("{}:{}", l.file(), l.line()))
            .unwrap_or_default();
        let msg = if let Some(s) = info.payload().downcast_ref::<&str>() {
            s.to_string()
        } else if let Some(s) = info.payload().downcast_ref::<String>() {
            s.clone()
        } else {
            "<non-string panic>".to_string()
        };
        PANIC_LOG.with(|p| p.borrow_mut().push((loc.clone(), msg.clone())));
        LAST_PANIC.with(|p| *p.borrow_mut() = Some((loc, msg)));
    }));
}
thread_local! {
    pub static LAST_PANIC: std::cell::RefCell<Option<(String, String)>> = const { std::cell::RefCell::new(None) };
}
thread_local! {
    pub static PANIC_LOG: std::cell::RefCell<Vec<(String, String)>> = const { std::cell::RefCell::new(Vec::new()) };
}
/// all panics (location, message) recorded on this OS thread since the last call, in order
pub fn take_panics() -> Vec<(String, String)> {
    PANIC_LOG.with(|p| std::mem::take(&mut *p.borrow_mut()))
}
/// "file|message" without line numbers and without the /repo/ prefix: a stable call-site identity
pub fn panic_site(loc: &str, msg: &str) -> String {
    let loc = loc.replace("/repo/", "");
    let file = loc.split(':').next().unwrap_or(&loc).to_string();
    // a panic inside a dependency: "<crate>-<version>/<path>" and only the head of the message
    if let Some(at) = file.find("/registry/src/") {
        let rest = &file[at + "/registry/src/".len()..];
        let rest = rest.split_once('/').map_or(rest, |x| x.1);
        let head: String = msg.split_whitespace().take(2).collect::<Vec<_>>().join(" ");
        return format!("{rest}|{head}");
    }
    // numbers inside the message (column values, lengths) are data, not identity
    let mut m = String::new();
    let mut in_num = false;
    for c in msg.chars().take(90) {
        if c.is_ascii_digit() {
            if !in_num {
                m.push('#');
            }
            in_num = true;
        } else {
            in_num = false;
            m.push(if c == '\n' { ' ' } else { c });
        }
    }
    format!("{file}|{m}")
}
pub fn take_last_panic() -> Option<(String, String)> {
    LAST_PANIC.with(|p| p.borrow_mut().take())
}
