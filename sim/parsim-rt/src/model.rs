//! Grammar model shared by the generator and the farm runtime: typed regex trees, the text
//! printer, nullability / productivity / left-corner analysis (domain filters computed on this
//! model, not with lelwel's sets) and seeded derivation of sentences.

use serde::{Deserialize, Serialize};
use vcore::Rng;

#[derive(Serialize, Deserialize, Clone, Debug, PartialEq, Eq)]
pub enum Rx {
    Tok(usize),
    /// token referenced by its symbol ('x') instead of its name
    Sym(usize),
    Rule(usize),
    Seq(Vec<Rx>),
    Alt(Vec<Rx>),
    Choice(Vec<Rx>),
    Opt(Box<Rx>),
    Star(Box<Rx>),
    Plus(Box<Rx>),
    Paren(Box<Rx>),
    /// "t" = constant true
    Pred(String),
    Action(String),
    Assert(String),
    Rename(String),
    Elide,
    Marker(String),
    Create { num: Option<String>, name: Option<String> },
    Commit,
    Return,
    /// `()` — empty parentheses
    Empty,
}

#[derive(Serialize, Deserialize, Clone, Debug, PartialEq, Eq)]
pub struct TokM {
    pub name: String,
    pub symbol: Option<String>,
    pub skipped: bool,
    pub right: bool,
}
#[derive(Serialize, Deserialize, Clone, Debug, PartialEq, Eq)]
pub struct RuleM {
    pub name: String,
    pub elided: bool,
    pub body: Option<Rx>,
}
#[derive(Serialize, Deserialize, Clone, Debug, PartialEq, Eq)]
pub struct GModel {
    pub tokens: Vec<TokM>,
    pub rules: Vec<RuleM>,
    pub start: usize,
    pub parts: Vec<usize>,
}

impl GModel {
    // -------------------------------------------------------------------------------------
    // text

    pub fn to_text(&self) -> String {
        let mut s = String::new();
        s.push_str("token");
        for t in &self.tokens {
            s.push(' ');
            s.push_str(&t.name);
            if let Some(sym) = &t.symbol {
                s.push_str(&format!("='{sym}'"));
            }
        }
        s.push_str(";\n");
        let sk: Vec<&str> = self.tokens.iter().filter(|t| t.skipped).map(|t| t.name.as_str()).collect();
        if !sk.is_empty() {
            s.push_str(&format!("skip {};\n", sk.join(" ")));
        }
        let ri: Vec<String> = self
            .tokens
            .iter()
            .filter(|t| t.right)
            .map(|t| match &t.symbol {
                Some(sym) => format!("'{sym}'"),
                None => t.name.clone(),
            })
            .collect();
        if !ri.is_empty() {
            s.push_str(&format!("right {};\n", ri.join(" ")));
        }
        s.push_str(&format!("start {};\n", self.rules[self.start].name));
        if !self.parts.is_empty() {
            let ps: Vec<&str> = self.parts.iter().map(|p| self.rules[*p].name.as_str()).collect();
            s.push_str(&format!("part {};\n", ps.join(" ")));
        }
        for r in &self.rules {
            s.push_str(&r.name);
            if r.elided {
                s.push('^');
            }
            s.push_str(":");
            if let Some(b) = &r.body {
                s.push(' ');
                self.rx_text(b, 0, &mut s);
            }
            s.push_str(";\n");
        }
        s
    }
    /// prec: 0 alternation, 1 ordered choice, 2 concat, 3 postfix/atom
    fn rx_text(&self, r: &Rx, prec: u8, s: &mut String) {
        let open = |need: bool, s: &mut String| {
            if need {
                s.push('(')
            }
        };
        let close = |need: bool, s: &mut String| {
            if need {
                s.push(')')
            }
        };
        match r {
            Rx::Tok(t) => s.push_str(&self.tokens[*t].name),
            Rx::Sym(t) => s.push_str(&format!("'{}'", self.tokens[*t].symbol.as_deref().unwrap_or("?"))),
            Rx::Rule(i) => s.push_str(&self.rules[*i].name),
            Rx::Seq(v) => {
                let need = prec > 2;
                open(need, s);
                for (i, x) in v.iter().enumerate() {
                    if i > 0 {
                        s.push(' ');
                    }
                    self.rx_text(x, 3, s);
                }
                close(need, s);
            }
            Rx::Alt(v) => {
                let need = prec > 0;
                open(need, s);
                for (i, x) in v.iter().enumerate() {
                    if i > 0 {
                        s.push_str(" | ");
                    }
                    self.rx_text(x, 1, s);
                }
                close(need, s);
            }
            Rx::Choice(v) => {
                let need = prec > 1;
                open(need, s);
                for (i, x) in v.iter().enumerate() {
                    if i > 0 {
                        s.push_str(" / ");
                    }
                    self.rx_text(x, 2, s);
                }
                close(need, s);
            }
            Rx::Opt(x) => {
                s.push('[');
                self.rx_text(x, 0, s);
                s.push(']');
            }
            Rx::Star(x) => {
                self.rx_text(x, 3, s);
                s.push('*');
            }
            Rx::Plus(x) => {
                self.rx_text(x, 3, s);
                s.push('+');
            }
            Rx::Paren(x) => {
                s.push('(');
                self.rx_text(x, 0, s);
                s.push(')');
            }
            Rx::Pred(n) => s.push_str(&format!("?{n}")),
            Rx::Action(n) => s.push_str(&format!("#{n}")),
            Rx::Assert(n) => s.push_str(&format!("!{n}")),
            Rx::Rename(n) => s.push_str(&format!("@{n}")),
            Rx::Elide => s.push('^'),
            Rx::Marker(n) => s.push_str(&format!("<{n}")),
            Rx::Create { num, name } => {
                s.push_str(&format!("{}>{}", num.as_deref().unwrap_or(""), name.as_deref().unwrap_or("")))
            }
            Rx::Commit => s.push('~'),
            Rx::Return => s.push('&'),
            Rx::Empty => s.push_str("()"),
        }
    }

    // -------------------------------------------------------------------------------------
    // analysis on the model (independent of lelwel's sets)

    /// minimal derivation height per rule (None = unproductive)
    pub fn min_heights(&self) -> Vec<Option<usize>> {
        let mut h: Vec<Option<usize>> = vec![None; self.rules.len()];
        loop {
            let mut changed = false;
            for (i, r) in self.rules.iter().enumerate() {
                let nh = match &r.body {
                    None => Some(0),
                    Some(b) => self.rx_height(b, &h).map(|x| x + 1),
                };
                if let Some(n) = nh {
                    if h[i].is_none_or(|o| n < o) {
                        h[i] = Some(n);
                        changed = true;
                    }
                }
            }
            if !changed {
                break;
            }
        }
        h
    }
    fn rx_height(&self, r: &Rx, h: &[Option<usize>]) -> Option<usize> {
        match r {
            Rx::Tok(_) | Rx::Sym(_) => Some(0),
            Rx::Rule(i) => h[*i],
            Rx::Seq(v) => {
                let mut m = 0;
                for x in v {
                    m = m.max(self.rx_height(x, h)?);
                }
                Some(m)
            }
            Rx::Alt(v) | Rx::Choice(v) => v.iter().filter_map(|x| self.rx_height(x, h)).min(),
            Rx::Opt(_) | Rx::Star(_) => Some(0),
            Rx::Plus(x) | Rx::Paren(x) => self.rx_height(x, h),
            _ => Some(0),
        }
    }
    pub fn all_productive(&self) -> bool {
        self.min_heights().iter().all(|h| h.is_some())
    }

    pub fn nullable_rules(&self) -> Vec<bool> {
        let mut n = vec![false; self.rules.len()];
        loop {
            let mut changed = false;
            for (i, r) in self.rules.iter().enumerate() {
                let v = match &r.body {
                    None => true,
                    Some(b) => self.rx_nullable(b, &n),
                };
                if v && !n[i] {
                    n[i] = true;
                    changed = true;
                }
            }
            if !changed {
                break;
            }
        }
        n
    }
    pub fn rx_nullable(&self, r: &Rx, n: &[bool]) -> bool {
        match r {
            Rx::Tok(_) | Rx::Sym(_) => false,
            Rx::Rule(i) => n[*i],
            Rx::Seq(v) => v.iter().all(|x| self.rx_nullable(x, n)),
            Rx::Alt(v) | Rx::Choice(v) => v.iter().any(|x| self.rx_nullable(x, n)),
            Rx::Opt(_) | Rx::Star(_) => true,
            Rx::Plus(x) | Rx::Paren(x) => self.rx_nullable(x, n),
            _ => true,
        }
    }

    /// rules reachable as left corner of `r` (through nullable prefixes)
    fn left_corners(&self, r: &Rx, n: &[bool], out: &mut Vec<usize>) {
        match r {
            Rx::Rule(i) => out.push(*i),
            Rx::Seq(v) => {
                for x in v {
                    self.left_corners(x, n, out);
                    if !self.rx_nullable(x, n) {
                        break;
                    }
                }
            }
            Rx::Alt(v) | Rx::Choice(v) => v.iter().for_each(|x| self.left_corners(x, n, out)),
            Rx::Opt(x) | Rx::Star(x) | Rx::Plus(x) | Rx::Paren(x) => self.left_corners(x, n, out),
            _ => {}
        }
    }

    /// Domain filter for totality (C03): the grammar has no way to recurse or loop without consuming
    /// a token that lelwel would only have accepted because a predicate guards it:
    ///  * no left recursion other than direct left recursion in Pratt form (top-level alternation
    ///    branch `self op...` with a non-nullable remainder),
    ///  * no repetition or option whose body is nullable.
    pub fn consumes_on_every_cycle(&self) -> bool {
        let n = self.nullable_rules();
        // nullable loop bodies
        fn loops_ok(g: &GModel, r: &Rx, n: &[bool]) -> bool {
            match r {
                Rx::Star(x) | Rx::Plus(x) | Rx::Opt(x) => !g.rx_nullable(x, n) && loops_ok(g, x, n),
                Rx::Seq(v) | Rx::Alt(v) | Rx::Choice(v) => v.iter().all(|x| loops_ok(g, x, n)),
                Rx::Paren(x) => loops_ok(g, x, n),
                _ => true,
            }
        }
        for r in &self.rules {
            if let Some(b) = &r.body {
                if !loops_ok(self, b, &n) {
                    return false;
                }
            }
        }
        // left-corner graph without the Pratt-form self edges
        let nr = self.rules.len();
        let mut edges: Vec<Vec<usize>> = vec![vec![]; nr];
        for (i, r) in self.rules.iter().enumerate() {
            let Some(b) = &r.body else { continue };
            let mut lc = vec![];
            if let Rx::Alt(branches) = b {
                for br in branches {
                    if let Some(rest) = pratt_left_branch(br, i) {
                        // `self rest...`: fine iff the remainder consumes; the operands after it are ordinary
                        if self.rx_nullable(&Rx::Seq(rest.to_vec()), &n) {
                            return false;
                        }
                    } else {
                        self.left_corners(br, &n, &mut lc);
                    }
                }
            } else {
                self.left_corners(b, &n, &mut lc);
            }
            edges[i] = lc;
        }
        // any cycle in the left-corner graph?
        let mut state = vec![0u8; nr];
        fn dfs(v: usize, edges: &[Vec<usize>], state: &mut [u8]) -> bool {
            state[v] = 1;
            for &w in &edges[v] {
                if state[w] == 1 || (state[w] == 0 && dfs(w, edges, state)) {
                    return true;
                }
            }
            state[v] = 2;
            false
        }
        for v in 0..nr {
            if state[v] == 0 && dfs(v, &edges, &mut state) {
                return false;
            }
        }
        true
    }

    /// Shape tag: a node creation (`k>name` with a marker taken before the alternative, or a whole-rule `>`)
    /// inside an alternative of an ordered choice that can still be undone. The wrapper is inserted *below* the
    /// rollback's truncation point (known finding, DESIGN §7): runs on such grammars are reported under one signature.
    pub fn undoable_creation_at_outer_mark(&self) -> bool {
        fn walk(r: &Rx, undoable: bool, inner_marks: &mut Vec<String>) -> bool {
            match r {
                Rx::Choice(v) => {
                    let n = v.len();
                    v.iter().enumerate().any(|(i, alt)| {
                        if i + 1 < n {
                            let mut inner = vec![];
                            walk(alt, true, &mut inner)
                        } else {
                            walk(alt, undoable, inner_marks)
                        }
                    })
                }
                Rx::Seq(v) => {
                    let mut u = undoable;
                    let depth = inner_marks.len();
                    let mut hit = false;
                    for x in v {
                        if matches!(x, Rx::Commit) {
                            u = false;
                        }
                        if walk(x, u, inner_marks) {
                            hit = true;
                        }
                    }
                    let _ = depth;
                    hit
                }
                Rx::Alt(v) => v.iter().any(|x| walk(x, undoable, &mut inner_marks.clone())),
                Rx::Opt(x) | Rx::Star(x) | Rx::Plus(x) | Rx::Paren(x) => walk(x, undoable, &mut inner_marks.clone()),
                Rx::Marker(n) => {
                    inner_marks.push(n.clone());
                    false
                }
                Rx::Create { num: Some(n), .. } => undoable && !inner_marks.contains(n),
                Rx::Create { num: None, .. } => undoable,
                _ => false,
            }
        }
        self.rules.iter().any(|r| r.body.as_ref().is_some_and(|b| walk(b, false, &mut vec![])))
    }

    /// Shape tag: a node creation at a mark while a mark taken later is still going to be used (`<1 A <2 B 1>x C 2>y`,
    /// or a whole-rule `>` before `k>`): marks are plain indices, the insertion shifts everything behind it and the later
    /// mark goes stale (known finding, DESIGN §7).
    pub fn creation_makes_later_mark_stale(&self) -> bool {
        fn walk(r: &Rx, taken: &mut Vec<String>, stale: &mut Vec<String>, hit: &mut bool) {
            match r {
                Rx::Seq(v) | Rx::Alt(v) | Rx::Choice(v) => v.iter().for_each(|x| walk(x, taken, stale, hit)),
                Rx::Opt(x) | Rx::Star(x) | Rx::Plus(x) | Rx::Paren(x) => walk(x, taken, stale, hit),
                Rx::Marker(n) => taken.push(n.clone()),
                Rx::Create { num: Some(n), .. } => {
                    if stale.contains(n) {
                        *hit = true;
                    }
                    if let Some(p) = taken.iter().position(|t| t == n) {
                        for later in &taken[p + 1..] {
                            stale.push(later.clone());
                        }
                    }
                }
                Rx::Create { num: None, .. } => stale.extend(taken.iter().cloned()),
                _ => {}
            }
        }
        self.rules.iter().any(|r| {
            let mut hit = false;
            if let Some(b) = &r.body {
                walk(b, &mut vec![], &mut vec![], &mut hit);
            }
            hit
        })
    }

    /// Shape tag: a rule can reach its return operator `&` without having consumed a token, and a repetition's body
    /// starts with that rule: entered in the active error state the rule returns at once and the loop spins
    /// (known finding, DESIGN §7).
    pub fn return_without_consumption_in_loop(&self) -> bool {
        let n = self.nullable_rules();
        // rules with an early return
        fn early_return(g: &GModel, r: &Rx, n: &[bool]) -> bool {
            match r {
                Rx::Return => true,
                Rx::Seq(v) => {
                    for x in v {
                        if early_return(g, x, n) {
                            return true;
                        }
                        if !g.rx_nullable(x, n) {
                            return false;
                        }
                    }
                    false
                }
                Rx::Alt(v) | Rx::Choice(v) => v.iter().any(|x| early_return(g, x, n)),
                Rx::Paren(x) => early_return(g, x, n),
                _ => false,
            }
        }
        let early: Vec<bool> = self.rules.iter().map(|r| r.body.as_ref().is_some_and(|b| early_return(self, b, &n))).collect();
        fn loops(g: &GModel, r: &Rx, n: &[bool], early: &[bool]) -> bool {
            match r {
                Rx::Star(x) | Rx::Plus(x) => {
                    // transitive left corners of the body
                    let mut seen = vec![false; g.rules.len()];
                    let mut todo = vec![];
                    g.left_corners(x, n, &mut todo);
                    let mut hit = false;
                    while let Some(i) = todo.pop() {
                        if seen[i] {
                            continue;
                        }
                        seen[i] = true;
                        if early[i] {
                            hit = true;
                        }
                        if let Some(b) = &g.rules[i].body {
                            g.left_corners(b, n, &mut todo);
                        }
                    }
                    hit || loops(g, x, n, early)
                }
                Rx::Seq(v) | Rx::Alt(v) | Rx::Choice(v) => v.iter().any(|x| loops(g, x, n, early)),
                Rx::Opt(x) | Rx::Paren(x) => loops(g, x, n, early),
                _ => false,
            }
        }
        self.rules.iter().any(|r| r.body.as_ref().is_some_and(|b| loops(self, b, &n, &early)))
    }

    pub fn has_choice(&self) -> bool {
        fn f(r: &Rx) -> bool {
            match r {
                Rx::Choice(_) => true,
                Rx::Seq(v) | Rx::Alt(v) => v.iter().any(f),
                Rx::Opt(x) | Rx::Star(x) | Rx::Plus(x) | Rx::Paren(x) => f(x),
                _ => false,
            }
        }
        self.rules.iter().any(|r| r.body.as_ref().is_some_and(f))
    }
    pub fn feature_counts(&self) -> std::collections::BTreeMap<&'static str, usize> {
        let mut m = std::collections::BTreeMap::new();
        fn f(r: &Rx, m: &mut std::collections::BTreeMap<&'static str, usize>) {
            let k = match r {
                Rx::Tok(_) => "tok",
                Rx::Sym(_) => "sym",
                Rx::Rule(_) => "rule_ref",
                Rx::Seq(_) => "concat",
                Rx::Alt(_) => "alternation",
                Rx::Choice(_) => "ordered_choice",
                Rx::Opt(_) => "optional",
                Rx::Star(_) => "star",
                Rx::Plus(_) => "plus",
                Rx::Paren(_) => "paren",
                Rx::Pred(p) => {
                    if p == "t" {
                        "predicate_true"
                    } else {
                        "predicate"
                    }
                }
                Rx::Action(_) => "action",
                Rx::Assert(_) => "assertion",
                Rx::Rename(_) => "rename",
                Rx::Elide => "elide_inline",
                Rx::Marker(_) => "marker",
                Rx::Create { num: Some(_), .. } => "creation_indexed",
                Rx::Create { num: None, .. } => "creation_whole_rule",
                Rx::Commit => "commit",
                Rx::Return => "return",
                Rx::Empty => "empty_paren",
            };
            *m.entry(k).or_default() += 1;
            match r {
                Rx::Seq(v) | Rx::Alt(v) | Rx::Choice(v) => v.iter().for_each(|x| f(x, m)),
                Rx::Opt(x) | Rx::Star(x) | Rx::Plus(x) | Rx::Paren(x) => f(x, m),
                _ => {}
            }
        }
        for (i, r) in self.rules.iter().enumerate() {
            if r.elided {
                *m.entry("elide_rule").or_default() += 1;
            }
            match &r.body {
                None => *m.entry("empty_rule").or_default() += 1,
                Some(b) => {
                    if let Rx::Alt(br) = b {
                        if br.iter().any(|x| pratt_left_branch(x, i).is_some()) {
                            *m.entry("pratt_rule").or_default() += 1;
                        }
                    }
                    f(b, &mut m)
                }
            }
        }
        if !self.parts.is_empty() {
            *m.entry("parts").or_default() += self.parts.len();
        }
        if self.tokens.iter().any(|t| t.skipped) {
            *m.entry("skipped_tokens").or_default() += self.tokens.iter().filter(|t| t.skipped).count();
        }
        if self.tokens.iter().any(|t| t.right) {
            *m.entry("right_tokens").or_default() += 1;
        }
        m
    }

    // -------------------------------------------------------------------------------------
    // derivation of sentences (workload)

    pub fn derive(&self, rng: &mut Rng, rule: usize, budget: usize) -> Vec<u16> {
        let h = self.min_heights();
        let mut out = vec![];
        let mut fuel = budget;
        self.derive_rule(rng, rule, 0, &h, &mut out, &mut fuel);
        out
    }
    fn derive_rule(&self, rng: &mut Rng, rule: usize, depth: usize, h: &[Option<usize>], out: &mut Vec<u16>, fuel: &mut usize) {
        if let Some(b) = &self.rules[rule].body {
            self.derive_rx(rng, b, depth + 1, h, out, fuel);
        }
    }
    fn derive_rx(&self, rng: &mut Rng, r: &Rx, depth: usize, h: &[Option<usize>], out: &mut Vec<u16>, fuel: &mut usize) {
        let tired = depth > 10 || *fuel == 0 || out.len() > 40;
        match r {
            Rx::Tok(t) | Rx::Sym(t) => {
                out.push(*t as u16);
                *fuel = fuel.saturating_sub(1);
            }
            Rx::Rule(i) => self.derive_rule(rng, *i, depth, h, out, fuel),
            Rx::Seq(v) => v.iter().for_each(|x| self.derive_rx(rng, x, depth, h, out, fuel)),
            Rx::Alt(v) | Rx::Choice(v) => {
                let hs: Vec<Option<usize>> = v.iter().map(|x| self.rx_height(x, h)).collect();
                let cands: Vec<usize> = (0..v.len()).filter(|i| hs[*i].is_some()).collect();
                if cands.is_empty() {
                    return;
                }
                let pick = if tired {
                    *cands.iter().min_by_key(|i| hs[**i].unwrap()).unwrap()
                } else {
                    cands[rng.below(cands.len())]
                };
                self.derive_rx(rng, &v[pick], depth, h, out, fuel);
            }
            Rx::Opt(x) => {
                if !tired && rng.chance(1, 2) {
                    self.derive_rx(rng, x, depth, h, out, fuel);
                }
            }
            Rx::Star(x) => {
                if !tired {
                    for _ in 0..rng.below(3) {
                        self.derive_rx(rng, x, depth, h, out, fuel);
                    }
                }
            }
            Rx::Plus(x) => {
                let n = if tired { 1 } else { 1 + rng.below(2) };
                for _ in 0..n {
                    self.derive_rx(rng, x, depth, h, out, fuel);
                }
            }
            Rx::Paren(x) => self.derive_rx(rng, x, depth, h, out, fuel),
            _ => {}
        }
    }
}

/// If `branch` is a Pratt left-recursive branch of rule `me` (`[meta...] me rest...`), return `rest`.
pub fn pratt_left_branch(branch: &Rx, me: usize) -> Option<&[Rx]> {
    let Rx::Seq(v) = branch else { return None };
    let mut i = 0;
    while i < v.len() && matches!(v[i], Rx::Pred(_) | Rx::Rename(_) | Rx::Elide | Rx::Action(_)) {
        i += 1;
    }
    if i < v.len() && v[i] == Rx::Rule(me) {
        Some(&v[i + 1..])
    } else {
        None
    }
}
