//! The other party of a generated parser: simulated lexer, adversarial callback answers and the
//! monitor that evaluates invariants at every callback and over the recorded history.

use crate::model::GModel;
use serde::{Deserialize, Serialize};
use std::cell::RefCell;
use std::collections::BTreeMap;
use std::rc::Rc;

pub type Span = core::ops::Range<usize>;

#[derive(Clone, Debug, PartialEq, Eq)]
pub struct Diag {
    pub span: Span,
    pub msg: String,
    /// 0 parser (create_diagnostic), 1 failing assertion, 2 marker pushed by create_node_*, 3 marker pushed by action_*
    pub origin: u8,
}

#[derive(Clone, Copy, Debug, PartialEq, Eq)]
pub enum NodeV {
    Rule(u16, usize),
    Token(u16, usize),
}

/// What the monitor may read of the parser at a callback (implemented in the grammar's own module,
/// which sees every private field of `Parser` / `CstData`).
pub trait PView {
    fn sim(&self) -> &Sim;
    fn pos(&self) -> usize;
    fn current(&self) -> u16;
    fn nodes(&self) -> Vec<NodeV>;
    fn token_count(&self) -> usize;
    fn non_skip_len(&self) -> usize;
    fn error_node(&self) -> Option<usize>;
    fn error_since_advance(&self) -> bool;
    fn in_ordered_choice(&self) -> bool;
    fn peek(&self, k: usize) -> u16;
    fn peek_left(&self, k: usize) -> u16;
}
/// The returned tree through its public read API plus the raw node vector.
pub trait CView {
    fn children(&self, n: usize) -> Vec<usize>;
    fn get(&self, n: usize) -> NodeV;
    fn span(&self, n: usize) -> Span;
    fn raw_nodes(&self) -> Vec<NodeV>;
}

// ------------------------------------------------------------------------------------------
// static description of a farm grammar

#[derive(Serialize, Deserialize, Clone, Copy, Debug, PartialEq, Eq)]
pub enum CbKind {
    Pred,
    Action,
    Assert,
    Create,
    Delete,
}
#[derive(Serialize, Deserialize, Clone, Copy, Debug, PartialEq, Eq)]
pub enum Role {
    None,
    /// `!b` directly before ordered choice c of the rule
    Before(u8),
    /// `!a_k`: first element of alternative k (1-based) of choice c
    Alt(u8, u8),
    /// `!c` directly after choice c
    After(u8),
}
#[derive(Serialize, Deserialize, Clone, Debug)]
pub struct CbMeta {
    pub kind: CbKind,
    /// rule name (pred/action/assert) or node name (create/delete)
    pub name: String,
    pub num: String,
    /// Rule discriminant for create/delete
    pub node_kind: u16,
    pub role: Role,
}
#[derive(Serialize, Deserialize, Clone, Debug)]
pub struct Meta {
    pub name: String,
    pub origin: String,
    pub text: String,
    pub model: GModel,
    /// enum index of model token 0 (after EOF, EOF<Part>..., Error)
    pub tok_base: u16,
    pub tok_error: u16,
    /// Token enum variant names in enum order
    pub token_names: Vec<String>,
    /// Rule enum variant (node) names by discriminant
    pub rule_names: Vec<String>,
    pub callbacks: Vec<CbMeta>,
    /// (entry name, rule index, end-of-input token enum index)
    pub entries: Vec<(String, usize, u16)>,
    /// all rules productive and no cycle without consumption (C03 domain)
    pub total_domain: bool,
    pub has_choice: bool,
    pub has_probes: bool,
    /// known-finding shapes this grammar contains (violations on it are reported under the shape's signature)
    #[serde(default)]
    pub shape_tags: Vec<String>,
}
impl Meta {
    pub fn is_static_skip(&self, tok: u16) -> bool {
        if tok == self.tok_error {
            return true;
        }
        if tok < self.tok_base {
            return false;
        }
        self.model.tokens.get((tok - self.tok_base) as usize).is_some_and(|t| t.skipped)
    }
    pub fn cb_name(&self, cb: u32) -> String {
        if cb == CB_DIAG {
            return "create_diagnostic".into();
        }
        let c = &self.callbacks[cb as usize];
        match c.kind {
            CbKind::Pred => format!("predicate_{}_{}", c.name, c.num),
            CbKind::Action => format!("action_{}_{}", c.name, c.num),
            CbKind::Assert => format!("assertion_{}_{}", c.name, c.num),
            CbKind::Create => format!("create_node_{}", c.name),
            CbKind::Delete => format!("delete_node_{}", c.name),
        }
    }
}
pub const CB_DIAG: u32 = u32::MAX;

// ------------------------------------------------------------------------------------------
// one simulated run

#[derive(Serialize, Deserialize, Clone, Debug, Default)]
pub struct Case {
    pub entry: usize,
    pub tokens: Vec<u16>,
    /// seed of the stateless answer function
    pub run_seed: u64,
    /// probability (x/256) that a predicate answers true / an ordinary assertion fails
    pub pred_bias: u16,
    pub assert_bias: u16,
    /// explicit answers: (callback id, logical position) -> 0 false/None, 1 true/Some
    pub overrides: Vec<(u32, u32, u8)>,
    /// tokens `predicate_skip` skips dynamically (C01/C02/C03 runs only)
    pub dyn_skip: Vec<u16>,
    /// create_node_* and action_* push a marker diagnostic
    pub markers: bool,
    /// probability (x/256) that a probe at the head of a non-last alternative aborts the attempt by itself
    pub probe_bias: u16,
}
impl Case {
    pub fn spans(&self) -> Vec<Span> {
        // contiguous spans, 1-3 bytes per token, a function of the token index only
        let mut v = Vec::with_capacity(self.tokens.len());
        let mut at = 0;
        for (i, _) in self.tokens.iter().enumerate() {
            let w = 1 + (i * 7 + 3) % 3;
            v.push(at..at + w);
            at += w;
        }
        v
    }
    pub fn source(&self) -> String {
        let mut s = String::new();
        for (i, t) in self.tokens.iter().enumerate() {
            let w = 1 + (i * 7 + 3) % 3;
            let c = (b'a' + (*t % 26) as u8) as char;
            for _ in 0..w {
                s.push(c);
            }
        }
        s
    }
}

#[derive(Clone, Copy, Debug, PartialEq, Eq)]
pub struct Event {
    pub cb: u32,
    pub kind: u8, // 0 pred 1 action 2 assert 3 create 4 delete 5 diag
    pub lpos: u32,
    pub pos: u32,
    pub answer: u8,
    pub nodes_len: u32,
    /// bit0 in_ordered_choice, bit1 error_since_advance, bit2 error_node.is_some()
    pub flags: u8,
    /// node index for create/delete
    pub arg: u32,
}

#[derive(Clone, Debug)]
pub struct Viol {
    pub oracle: &'static str,
    pub detail: String,
    pub at_event: usize,
}

#[derive(Clone, Debug)]
struct StateSnap {
    pos: usize,
    current: u16,
    nodes: Vec<NodeV>,
    token_count: usize,
    non_skip_len: usize,
    error_node: Option<usize>,
    error_since_advance: bool,
}
#[derive(Clone, Debug)]
struct Window {
    rule: String,
    choice: u8,
    snap: StateSnap,
    last_alt: u8,
}

#[derive(Default)]
pub struct Probes {
    pub preds_true: usize,
    pub preds_false: usize,
    pub asserts_failed: usize,
    pub asserts_failed_in_attempt: usize,
    pub asserts_ok: usize,
    pub creates: usize,
    pub deletes: usize,
    pub deletes_of_unannounced: usize,
    pub actions: usize,
    pub diags: usize,
    pub attempts_abandoned: usize,
    pub windows: usize,
    pub insertions: usize,
    pub insert_before_mark_with_trailing_trivia: usize,
    pub error_node_closed_inside_attempt: usize,
    pub delete_of_renamed_kind: usize,
    pub dyn_skips: usize,
    pub peeks_checked: usize,
    pub truncations: usize,
}

pub struct MonState {
    pub events: Vec<Event>,
    pub viols: Vec<Viol>,
    prev: Vec<NodeV>,
    live: Vec<bool>,
    windows: Vec<Window>,
    pub probes: Probes,
    pub steps: usize,
    pub budget: usize,
    /// positions of the tokens `predicate_skip` answered true for in this run
    pub dyn_skipped: std::collections::BTreeSet<usize>,
}

pub struct SimInner {
    pub meta: Rc<Meta>,
    pub case: Case,
    pub spans: Vec<Span>,
    pub max_offset: usize,
    /// number of non-(statically-)skipped tokens before index i (0..=len)
    pub lpos: Vec<u32>,
    pub overrides: BTreeMap<(u32, u32), u8>,
    pub check_peek: bool,
    pub st: RefCell<MonState>,
}
#[derive(Clone)]
pub struct Sim(pub Rc<SimInner>);

pub struct StepBudgetExceeded;

fn h256(seed: u64, a: u64, b: u64) -> u16 {
    (vcore::h(&[seed, a, b]) & 0xff) as u16
}

impl Sim {
    pub fn new(meta: Rc<Meta>, case: Case, check_peek: bool) -> Sim {
        let spans = case.spans();
        let max_offset = spans.last().map_or(0, |s| s.end);
        let mut lpos = Vec::with_capacity(case.tokens.len() + 1);
        let mut n = 0u32;
        for t in &case.tokens {
            lpos.push(n);
            if !meta.is_static_skip(*t) {
                n += 1;
            }
        }
        lpos.push(n);
        let overrides = case.overrides.iter().map(|(c, l, a)| ((*c, *l), *a)).collect();
        let budget = 200 + 25 * (case.tokens.len() + 2) * (meta.model.rules.len() + 2);
        Sim(Rc::new(SimInner {
            meta,
            case,
            spans,
            max_offset,
            lpos,
            overrides,
            check_peek,
            st: RefCell::new(MonState {
                events: vec![],
                viols: vec![],
                prev: vec![],
                live: vec![],
                windows: vec![],
                probes: Probes::default(),
                steps: 0,
                budget,
                dyn_skipped: Default::default(),
            }),
        }))
    }
    pub fn case_tokens(&self) -> &[u16] {
        &self.0.case.tokens
    }
    pub fn case_spans(&self) -> Vec<Span> {
        self.0.spans.clone()
    }
    fn span_at(&self, pos: usize) -> Span {
        self.0.spans.get(pos).cloned().unwrap_or(self.0.max_offset..self.0.max_offset)
    }
    fn lpos_at(&self, pos: usize) -> u32 {
        self.0.lpos.get(pos).copied().unwrap_or_else(|| *self.0.lpos.last().unwrap())
    }
}

fn viol(st: &mut MonState, oracle: &'static str, detail: String) {
    if st.viols.len() < 8 && !st.viols.iter().any(|v| v.oracle == oracle) {
        let at = st.events.len();
        st.viols.push(Viol { oracle, detail, at_event: at });
    }
}

fn node_matches(prev: NodeV, cur: NodeV, live: bool) -> bool {
    match (prev, cur) {
        (NodeV::Token(a, i), NodeV::Token(b, j)) => a == b && i == j,
        (NodeV::Rule(k, o), NodeV::Rule(k2, o2)) => {
            if live {
                k == k2 && o == o2
            } else {
                true
            }
        }
        _ => false,
    }
}

/// Common part of every callback: budget, event record, invariants that hold at every event.
fn on_event(v: &dyn PView, kind: u8, cb: u32, answer: u8, arg: u32) -> usize {
    let sim = v.sim();
    let inner = &sim.0;
    let mut st = inner.st.borrow_mut();
    st.steps += 1;
    if st.steps > st.budget {
        drop(st);
        std::panic::panic_any(StepBudgetExceeded);
    }
    let pos = v.pos();
    let cur = v.nodes();
    let flags = (v.in_ordered_choice() as u8) | ((v.error_since_advance() as u8) << 1) | ((v.error_node().is_some() as u8) << 2);
    let ev = Event { cb, kind, lpos: sim.lpos_at(pos), pos: pos as u32, answer, nodes_len: cur.len() as u32, flags, arg };
    st.events.push(ev);
    let ntok = inner.case.tokens.len();

    // C01 (during the run): the token leaves are exactly tokens[..pos], in order, and token_count == pos.
    // delete callbacks run between the cursor reset and the truncation, so they are exempt.
    if kind != 4 {
        if pos > ntok {
            viol(&mut st, "C01.cursor_beyond_input", format!("pos {pos} > {ntok} tokens"));
        }
        if v.token_count() != pos {
            viol(&mut st, "C01.token_count_out_of_step", format!("token_count {} != pos {pos} at {}", v.token_count(), inner.meta.cb_name(cb)));
        }
        let mut k = 0usize;
        for n in &cur {
            if let NodeV::Token(t, idx) = n {
                if *idx != k || inner.case.tokens.get(k) != Some(t) {
                    viol(&mut st, "C01.leaf_prefix_broken", format!("leaf #{k} is ({t},{idx}) but input token is {:?} at {}", inner.case.tokens.get(k), inner.meta.cb_name(cb)));
                    break;
                }
                k += 1;
            }
        }
        if k != pos.min(ntok) && !st.viols.iter().any(|x| x.oracle.starts_with("C01")) {
            viol(&mut st, "C01.leaf_prefix_broken", format!("{k} token leaves in the tree but the cursor is at {pos} at {}", inner.meta.cb_name(cb)));
        }
    }

    // identity tracking of announced nodes: align the previous snapshot with the current nodes
    let prev = std::mem::take(&mut st.prev);
    let live = std::mem::take(&mut st.live);
    let mut live_cur = vec![false; cur.len()];
    let (mut i, mut j) = (0usize, 0usize);
    let mut inserted_at: Option<usize> = None;
    while i < prev.len() && j < cur.len() {
        if node_matches(prev[i], cur[j], live[i]) {
            live_cur[j] = live[i];
            i += 1;
            j += 1;
        } else if matches!(cur[j], NodeV::Rule(..)) {
            // a placeholder inserted before a mark (or the start of a rebuilt region: decided below)
            inserted_at.get_or_insert(j);
            j += 1;
        } else {
            break;
        }
    }
    if i == prev.len() {
        if let Some(ix) = inserted_at {
            st.probes.insertions += 1;
            if ix > 0 && matches!(cur[ix - 1], NodeV::Token(t, _) if inner.meta.is_static_skip(t)) {
                st.probes.insert_before_mark_with_trailing_trivia += 1;
            }
        }
    } else {
        // the rest of the previous snapshot is gone (rollback) or was rebuilt differently
        if kind != 4 {
            st.probes.truncations += 1;
        }
        for (k, l) in live[i..].iter().enumerate() {
            // (an announced empty error node is indistinguishable from a fresh placeholder: lenient)
            let lenient = matches!(prev[i + k], NodeV::Rule(kd, 0) if inner.meta.rule_names.get(kd as usize).is_some_and(|n| n == "error"));
            if *l && !lenient {
                viol(
                    &mut st,
                    "C08.announced_node_vanished_without_delete",
                    format!("node {:?} (index {} of the previous snapshot) was announced by a created callback, is no longer in the tree at {} and no deleted callback was seen", prev[i + k], i + k, inner.meta.cb_name(cb)),
                );
                break;
            }
        }
    }
    st.prev = cur;
    st.live = live_cur;

    // C08.5: outside a `!b ... !c` window no attempt can be active
    if st.windows.is_empty() && v.in_ordered_choice() && inner.meta.has_probes {
        viol(&mut st, "C08.choice_mode_active_outside_a_choice", format!("in_ordered_choice is set at {} (logical position {}) although no ordered choice is being parsed", inner.meta.cb_name(cb), sim.lpos_at(pos)));
    }
    st.events.len() - 1
}

fn answer(sim: &Sim, cb: u32, lpos: u32, bias: u16) -> bool {
    if let Some(a) = sim.0.overrides.get(&(cb, lpos)) {
        return *a != 0;
    }
    h256(sim.0.case.run_seed, cb as u64, lpos as u64) < bias
}

fn check_peek(v: &dyn PView, cbname: &str) {
    let sim = v.sim();
    let inner = &sim.0;
    if !inner.check_peek {
        return;
    }
    let toks = &inner.case.tokens;
    let pos = v.pos();
    let eoi = inner.meta.entries[inner.case.entry].2;
    let ahead: Vec<u16> = toks.iter().skip(pos).copied().filter(|t| !inner.meta.is_static_skip(*t)).collect();
    let behind: Vec<u16> = toks.iter().take(pos + 1).rev().copied().filter(|t| !inner.meta.is_static_skip(*t)).collect();
    let mut st = inner.st.borrow_mut();
    st.probes.peeks_checked += 1;
    for k in 0..4usize {
        let got = v.peek(k);
        let exp = ahead.get(k).copied().unwrap_or(eoi);
        if inner.meta.is_static_skip(got) {
            viol(&mut st, "C16.lookahead_shows_skipped_token", format!("peek({k}) at {cbname} returned the skipped token {}", inner.meta.token_names[got as usize]));
        } else if got != exp {
            viol(&mut st, "C16.lookahead_wrong", format!("peek({k}) at {cbname} (pos {pos}) returned {} but the {k}-th non-skipped token ahead is {}", inner.meta.token_names[got as usize], inner.meta.token_names[exp as usize]));
        }
        let gotl = v.peek_left(k);
        let expl = behind.get(k).copied().unwrap_or(eoi);
        if inner.meta.is_static_skip(gotl) {
            viol(&mut st, "C16.lookahead_shows_skipped_token", format!("peek_left({k}) at {cbname} returned the skipped token {}", inner.meta.token_names[gotl as usize]));
        } else if gotl != expl {
            viol(&mut st, "C16.lookahead_wrong", format!("peek_left({k}) at {cbname} (pos {pos}) returned {} but expected {}", inner.meta.token_names[gotl as usize], inner.meta.token_names[expl as usize]));
        }
    }
}

pub fn on_predicate(v: &dyn PView, cb: u32) -> bool {
    let sim = v.sim().clone();
    let lpos = sim.lpos_at(v.pos());
    let a = answer(&sim, cb, lpos, sim.0.case.pred_bias);
    on_event(v, 0, cb, a as u8, 0);
    check_peek(v, &sim.0.meta.cb_name(cb));
    let mut st = sim.0.st.borrow_mut();
    if a {
        st.probes.preds_true += 1
    } else {
        st.probes.preds_false += 1
    }
    a
}

fn snap(v: &dyn PView) -> StateSnap {
    StateSnap {
        pos: v.pos(),
        current: v.current(),
        nodes: v.nodes(),
        token_count: v.token_count(),
        non_skip_len: v.non_skip_len(),
        error_node: v.error_node(),
        error_since_advance: v.error_since_advance(),
    }
}

pub fn on_assertion(v: &dyn PView, cb: u32) -> Option<Diag> {
    let sim = v.sim().clone();
    let meta = sim.0.meta.clone();
    let c = &meta.callbacks[cb as usize];
    let pos = v.pos();
    let lpos = sim.lpos_at(pos);
    let fail = match c.role {
        Role::Before(_) | Role::After(_) => false,
        // a probe at the head of an alternative aborts the attempt only when told to (paired runs)
        Role::Alt(..) => match sim.0.overrides.get(&(cb, lpos)) {
            Some(a) => *a != 0,
            None => v.in_ordered_choice() && sim.0.case.probe_bias > 0 && h256(sim.0.case.run_seed ^ 0x9e37, cb as u64, lpos as u64) < sim.0.case.probe_bias,
        },
        Role::None => answer(&sim, cb, lpos, sim.0.case.assert_bias),
    };
    // window bookkeeping happens before the generic event so that the out-of-window check sees it
    {
        let mut st = sim.0.st.borrow_mut();
        match c.role {
            Role::Before(ch) => {
                st.probes.windows += 1;
                st.windows.push(Window { rule: c.name.clone(), choice: ch, snap: snap(v), last_alt: 0 });
            }
            Role::Alt(ch, k) => {
                let top_ok = st.windows.last().is_some_and(|w| w.rule == c.name && w.choice == ch);
                if top_ok {
                    let w = st.windows.last().cloned().unwrap();
                    if w.last_alt > 0 && k > w.last_alt {
                        // every earlier alternative was abandoned: the state must be what it was at `!b`
                        st.probes.attempts_abandoned += 1;
                        let now = snap(v);
                        let mut diffs = vec![];
                        if now.pos != w.snap.pos {
                            diffs.push(format!("pos {} -> {}", w.snap.pos, now.pos));
                        }
                        if now.current != w.snap.current {
                            diffs.push("current token".to_string());
                        }
                        if now.nodes != w.snap.nodes {
                            diffs.push(format!("tree ({} -> {} nodes)", w.snap.nodes.len(), now.nodes.len()));
                        }
                        if now.token_count != w.snap.token_count {
                            diffs.push(format!("token_count {} -> {}", w.snap.token_count, now.token_count));
                        }
                        if now.non_skip_len != w.snap.non_skip_len {
                            diffs.push(format!("non_skip_len {} -> {}", w.snap.non_skip_len, now.non_skip_len));
                        }
                        if now.error_node != w.snap.error_node {
                            diffs.push(format!("pending error node {:?} -> {:?}", w.snap.error_node, now.error_node));
                        }
                        if now.error_since_advance != w.snap.error_since_advance {
                            diffs.push(format!("active-error flag {} -> {}", w.snap.error_since_advance, now.error_since_advance));
                        }
                        if !diffs.is_empty() {
                            let which = if diffs.len() == 1 && diffs[0].starts_with("active-error") {
                                "C08.rollback_leaves_error_state"
                            } else if diffs.iter().any(|d| d.starts_with("pending error node")) || diffs.iter().any(|d| d.starts_with("tree")) {
                                "C08.rollback_leaves_tree_or_cursor"
                            } else {
                                "C08.rollback_leaves_state"
                            };
                            viol(&mut st, which, format!("after abandoning alternative {} of choice {} in rule {} the parser state differs from the state before the attempt: {}", w.last_alt, ch, c.name, diffs.join(", ")));
                        }
                    }
                    st.windows.last_mut().unwrap().last_alt = k;
                }
            }
            Role::After(ch) => {
                if let Some(ix) = st.windows.iter().rposition(|w| w.rule == c.name && w.choice == ch) {
                    st.windows.truncate(ix);
                }
                if v.in_ordered_choice() {
                    viol(&mut st, "C08.choice_mode_active_after_choice", format!("in_ordered_choice is still set directly after choice {} of rule {} (logical position {lpos})", ch, c.name));
                }
            }
            Role::None => {}
        }
    }
    on_event(v, 2, cb, fail as u8, 0);
    check_peek(v, &meta.cb_name(cb));
    let mut st = sim.0.st.borrow_mut();
    if fail {
        st.probes.asserts_failed += 1;
        if v.in_ordered_choice() {
            st.probes.asserts_failed_in_attempt += 1;
        }
        Some(Diag { span: sim.span_at(pos), msg: format!("assertion {} failed @{lpos}", meta.cb_name(cb)), origin: 1 })
    } else {
        st.probes.asserts_ok += 1;
        None
    }
}

pub fn on_action(v: &dyn PView, cb: u32, diags: &mut Vec<Diag>) {
    let sim = v.sim().clone();
    on_event(v, 1, cb, 0, 0);
    let mut st = sim.0.st.borrow_mut();
    st.probes.actions += 1;
    if v.in_ordered_choice() {
        viol(&mut st, "C08.action_inside_undoable_attempt", format!("{} ran while an ordered-choice attempt could still be undone", sim.0.meta.cb_name(cb)));
    }
    if sim.0.case.markers {
        let lpos = sim.lpos_at(v.pos());
        diags.push(Diag { span: sim.span_at(v.pos()), msg: format!("{} @{lpos}", sim.0.meta.cb_name(cb)), origin: 3 });
    }
}

/// partition check of the subtree rooted at `idx` on the raw node vector; returns the first problem
pub fn subtree_problem(nodes: &[NodeV], idx: usize) -> Option<String> {
    let NodeV::Rule(_, off) = nodes.get(idx).copied()? else { return Some(format!("node {idx} is not a rule node")) };
    let end = idx + off;
    if end >= nodes.len() {
        return Some(format!("extent of node {idx} ends at {end} but the tree has {} nodes", nodes.len()));
    }
    let mut i = idx + 1;
    while i <= end {
        match nodes[i] {
            NodeV::Token(..) => i += 1,
            NodeV::Rule(_, o) => {
                if i + o > end {
                    return Some(format!("child {i} (extent to {}) reaches beyond its parent {idx} (extent to {end})", i + o));
                }
                if let Some(p) = subtree_problem(nodes, i) {
                    return Some(p);
                }
                i += o + 1;
            }
        }
    }
    None
}

pub fn on_create(v: &dyn PView, cb: u32, idx: usize, diags: &mut Vec<Diag>) {
    let sim = v.sim().clone();
    let meta = sim.0.meta.clone();
    let kind = meta.callbacks[cb as usize].node_kind;
    on_event(v, 3, cb, 0, idx as u32);
    let mut st = sim.0.st.borrow_mut();
    st.probes.creates += 1;
    if v.in_ordered_choice() && kind == 0 {
        st.probes.error_node_closed_inside_attempt += 1;
    }
    let nodes = st.prev.clone();
    // C02: the announced node already has the announced kind and a complete subtree
    match nodes.get(idx) {
        Some(NodeV::Rule(k, _)) if *k == kind => {
            if let Some(p) = subtree_problem(&nodes, idx) {
                viol(&mut st, "C02.announced_subtree_malformed", format!("{}({idx}): {p}", meta.cb_name(cb)));
            } else if let NodeV::Rule(_, off) = nodes[idx] {
                for j in idx + 1..=idx + off {
                    if matches!(nodes[j], NodeV::Rule(..)) && !st.live[j] {
                        viol(
                            &mut st,
                            "C02.announced_subtree_incomplete",
                            format!("{}({idx}) fired while its descendant at index {j} ({:?}) had not been closed/announced yet", meta.cb_name(cb), nodes[j]),
                        );
                        break;
                    }
                }
            }
        }
        other => viol(&mut st, "C02.announced_kind_mismatch", format!("{}({idx}) but the node there is {other:?}", meta.cb_name(cb))),
    }
    if st.live.get(idx).copied().unwrap_or(false) {
        viol(&mut st, "C08.node_announced_twice", format!("{}({idx}): a node at this place was already announced and not deleted", meta.cb_name(cb)));
    }
    if idx < st.live.len() {
        st.live[idx] = true;
    }
    if sim.0.case.markers {
        let lpos = sim.lpos_at(v.pos());
        diags.push(Diag { span: sim.span_at(v.pos()), msg: format!("{} @{lpos}", meta.cb_name(cb)), origin: 2 });
    }
}

pub fn on_delete(v: &dyn PView, cb: u32, idx: usize) {
    let sim = v.sim().clone();
    let meta = sim.0.meta.clone();
    let kind = meta.callbacks[cb as usize].node_kind;
    on_event(v, 4, cb, 0, idx as u32);
    let mut st = sim.0.st.borrow_mut();
    st.probes.deletes += 1;
    if meta.rule_names.get(kind as usize).is_some_and(|n| !meta.model.rules.iter().any(|r| &r.name == n) && n != "error") {
        st.probes.delete_of_renamed_kind += 1;
    }
    match st.prev.get(idx).copied() {
        Some(NodeV::Rule(k, _)) if k == kind => {}
        other => viol(&mut st, "C08.delete_kind_mismatch", format!("{}({idx}) but the node there is {other:?}", meta.cb_name(cb))),
    }
    if st.live.get(idx).copied().unwrap_or(false) {
        st.live[idx] = false;
    } else {
        st.probes.deletes_of_unannounced += 1;
    }
}

pub fn on_diag(v: &dyn PView, span: Span, msg: String) -> Diag {
    let sim = v.sim().clone();
    on_event(v, 5, CB_DIAG, 0, 0);
    sim.0.st.borrow_mut().probes.diags += 1;
    // C08.6: inside an attempt that can still be undone a mismatch ends the attempt, it is never reported:
    // a diagnostic created while the choice mode is active means the code at this point cannot backtrack
    if v.in_ordered_choice() {
        let lpos = sim.lpos_at(v.pos());
        let mut st = sim.0.st.borrow_mut();
        viol(&mut st, "C08.mismatch_reported_inside_undoable_attempt", format!("create_diagnostic({msg:?}) at logical position {lpos} while an ordered-choice attempt could still be undone (the code here reports instead of abandoning the alternative)"));
    }
    Diag { span, msg, origin: 0 }
}

pub fn on_skip(v: &dyn PView, tok: u16) -> bool {
    let sim = v.sim();
    if sim.0.case.dyn_skip.is_empty() {
        return false;
    }
    let r = sim.0.case.dyn_skip.contains(&tok);
    if r {
        let mut st = sim.0.st.borrow_mut();
        st.probes.dyn_skips += 1;
        st.steps += 1;
        st.dyn_skipped.insert(v.pos());
    }
    r
}

// ------------------------------------------------------------------------------------------
// checks over the returned tree and the recorded history

pub struct RunOut {
    pub viols: Vec<Viol>,
    pub events: Vec<Event>,
    pub nodes: Vec<NodeV>,
    pub diags: Vec<Diag>,
    /// tree with skipped leaves removed and token indices made logical (C16 comparison)
    pub norm_tree: Vec<i64>,
    /// diagnostics as (origin, message, logical position or -1 for end of input)
    pub norm_diags: Vec<(u8, String, i64)>,
    pub probes: Probes,
    pub trailing_garbage: bool,
}

pub fn finish(sim: &Sim, cst: &dyn CView, diags: Vec<Diag>) -> RunOut {
    let inner = &sim.0;
    let meta = &inner.meta;
    let mut st = inner.st.borrow_mut();
    let nodes = cst.raw_nodes();
    let toks = &inner.case.tokens;

    // C01: a depth-first walk through the public API visits every input token exactly once, in order, with its span
    let mut leaves: Vec<(u16, Span)> = vec![];
    let mut norm_tree: Vec<i64> = vec![];
    let mut shape_viols: Vec<(&'static str, String)> = vec![];
    let dyn_skipped = st.dyn_skipped.clone();
    fn walk(
        cst: &dyn CView,
        meta: &Meta,
        dyn_skipped: &std::collections::BTreeSet<usize>,
        lpos: &[u32],
        n: usize,
        depth: usize,
        leaves: &mut Vec<(u16, Span)>,
        norm: &mut Vec<i64>,
        shape: &mut Vec<(&'static str, String)>,
        nodes_len: usize,
    ) {
        if depth > 4000 || leaves.len() > nodes_len + 8 {
            shape.push(("C02.walk_does_not_terminate", format!("walk exceeded bounds at node {n}")));
            return;
        }
        match cst.get(n) {
            NodeV::Token(t, idx) => {
                leaves.push((t, cst.span(n)));
                if !meta.is_static_skip(t) {
                    norm.push(1_000_000 + (t as i64) * 10_000 + lpos.get(idx).copied().unwrap_or(9_999) as i64);
                }
            }
            NodeV::Rule(k, off) => {
                norm.push(k as i64 + 1);
                let kids = cst.children(n);
                let pspan = cst.span(n);
                // children partition the extent [n+1, n+off]
                let mut expect = n + 1;
                let mut last_end = pspan.start;
                for (ci, c) in kids.iter().enumerate() {
                    if *c != expect {
                        shape.push(("C02.children_do_not_partition_extent", format!("child #{ci} of node {n} is at {c}, expected {expect}")));
                    }
                    if *c >= nodes_len {
                        shape.push(("C02.child_index_out_of_bounds", format!("child {c} of node {n} is beyond the tree ({nodes_len} nodes)")));
                        return;
                    }
                    expect = match cst.get(*c) {
                        NodeV::Token(..) => *c + 1,
                        NodeV::Rule(_, o) => *c + o + 1,
                    };
                    if expect > n + off + 1 {
                        shape.push(("C02.child_extent_outside_parent", format!("child {c} of node {n} ends at {} but the parent ends at {}", expect - 1, n + off)));
                    }
                    let cs = cst.span(*c);
                    if cs.start < pspan.start || cs.end > pspan.end || cs.start > cs.end {
                        shape.push(("C02.child_span_outside_parent", format!("child {c} span {cs:?} not inside parent {n} span {pspan:?}")));
                    }
                    if cs.start < last_end {
                        shape.push(("C02.sibling_spans_out_of_order", format!("child {c} of node {n} starts at {} before its left sibling ends at {last_end}", cs.start)));
                    }
                    last_end = last_end.max(cs.end);
                }
                if expect != n + off + 1 {
                    shape.push(("C02.children_do_not_partition_extent", format!("children of node {n} end at {} but its extent ends at {}", expect as i64 - 1, n + off)));
                }
                // no rule node other than the root starts or ends with a skipped token (direct children)
                if n != 0 && !kids.is_empty() {
                    for (what, c) in [("starts", kids[0]), ("ends", *kids.last().unwrap())] {
                        if let NodeV::Token(t, ti) = cst.get(c) {
                            if meta.is_static_skip(t) {
                                shape.push(("C02.rule_node_starts_or_ends_with_skipped_token", format!("rule node {n} ({}) {what} with skipped token {}", meta.rule_names[k as usize], meta.token_names[t as usize])));
                            } else if dyn_skipped.contains(&ti) && meta.rule_names[k as usize] != "error" {
                                shape.push(("C02.rule_node_starts_or_ends_with_skipped_token", format!("rule node {n} ({}) {what} with token {} at input position {ti}, which predicate_skip skipped", meta.rule_names[k as usize], meta.token_names[t as usize])));
                            }
                        }
                    }
                }
                for c in kids {
                    walk(cst, meta, dyn_skipped, lpos, c, depth + 1, leaves, norm, shape, nodes_len);
                }
                norm.push(-1);
            }
        }
    }
    if nodes.is_empty() {
        viol(&mut st, "C01.empty_tree", "the returned tree has no nodes".into());
    } else {
        walk(cst, meta, &dyn_skipped, &inner.lpos, 0, 0, &mut leaves, &mut norm_tree, &mut shape_viols, nodes.len());
        if let NodeV::Rule(_, off) = nodes[0] {
            if off + 1 != nodes.len() {
                shape_viols.push(("C02.root_does_not_cover_tree", format!("root extent {} but {} nodes", off, nodes.len())));
            }
        }
    }
    for (o, d) in shape_viols {
        viol(&mut st, o, d);
    }
    if leaves.len() != toks.len() {
        viol(&mut st, "C01.leaf_count", format!("walk visits {} tokens, the input has {}", leaves.len(), toks.len()));
    } else {
        for (i, (t, sp)) in leaves.iter().enumerate() {
            if *t != toks[i] || *sp != inner.spans[i] {
                viol(&mut st, "C01.leaf_mismatch", format!("leaf #{i} is ({}, {sp:?}) but input token #{i} is ({}, {:?})", meta.token_names[*t as usize], meta.token_names[toks[i] as usize], inner.spans[i]));
                break;
            }
        }
    }
    // rule spans: first-to-last token leaf, or the empty-node rule
    {
        let src = inner.case.source();
        let mut rebuilt = String::new();
        for (_, sp) in &leaves {
            rebuilt.push_str(src.get(sp.clone()).unwrap_or("\u{0}"));
        }
        if rebuilt != src && leaves.len() == toks.len() {
            viol(&mut st, "C01.source_not_reproduced", "concatenating the leaf spans does not give the source".into());
        }
    }
    // every rule node of the final tree was announced (no unclosed placeholder survives)
    {
        // bring the live flags up to date with the final nodes (events after the last callback: none change rule nodes except the root close)
        let prev = st.prev.clone();
        let live = st.live.clone();
        if prev.len() == nodes.len() {
            for (i, n) in nodes.iter().enumerate() {
                if let NodeV::Rule(k, _) = n {
                    if !live[i] {
                        let o = if meta.has_choice { "C08.unannounced_node_in_final_tree" } else { "C02.unannounced_node_in_final_tree" };
                        viol(&mut st, o, format!("rule node {i} ({}) of the returned tree was never announced by a created callback (an unclosed placeholder)", meta.rule_names.get(*k as usize).cloned().unwrap_or_default()));
                        break;
                    }
                }
            }
        } else {
            viol(&mut st, "C02.tree_changed_after_last_callback", format!("{} nodes at the last callback, {} returned", prev.len(), nodes.len()));
        }
    }
    // C08 conservation on diagnostics: one marker per surviving node, none from undone attempts
    if inner.case.markers {
        let markers = diags.iter().filter(|d| d.origin == 2).count();
        let rules = nodes.iter().filter(|n| matches!(n, NodeV::Rule(..))).count();
        if markers != rules {
            viol(&mut st, "C08.created_callback_diagnostics_not_conserved", format!("{markers} diagnostics pushed by created callbacks survive but the tree has {rules} rule nodes"));
        }
    }
    let norm_diags = diags
        .iter()
        .map(|d| {
            let lp = if d.span.start >= inner.max_offset && d.span.end >= inner.max_offset && d.span.start == d.span.end {
                -1
            } else {
                inner.spans.iter().position(|s| s.start == d.span.start).map_or(-2, |i| inner.lpos[i] as i64)
            };
            (d.origin, d.msg.clone(), lp)
        })
        .collect();
    // spans inside the source
    for d in &diags {
        if d.span.end > inner.max_offset || d.span.start > d.span.end {
            viol(&mut st, "C01.diagnostic_span_outside_source", format!("{d:?}"));
        }
    }
    let trailing = false;
    RunOut {
        viols: std::mem::take(&mut st.viols),
        events: std::mem::take(&mut st.events),
        nodes,
        diags,
        norm_tree,
        norm_diags,
        probes: std::mem::take(&mut st.probes),
        trailing_garbage: trailing,
    }
}

/// From the natural run's history: the attempts that were abandoned, as (probe callback id, logical position).
pub fn abandoned_attempts(meta: &Meta, events: &[Event]) -> Vec<(u32, u32)> {
    let mut stack: Vec<(String, u8, Option<(u32, u32, u8)>)> = vec![];
    let mut out = vec![];
    for e in events {
        if e.kind != 2 {
            continue;
        }
        let c = &meta.callbacks[e.cb as usize];
        match c.role {
            Role::Before(ch) => stack.push((c.name.clone(), ch, None)),
            Role::Alt(ch, k) => {
                if let Some(top) = stack.last_mut() {
                    if top.0 == c.name && top.1 == ch {
                        if let Some((pcb, plpos, pk)) = top.2 {
                            if k > pk {
                                out.push((pcb, plpos));
                            }
                        }
                        top.2 = Some((e.cb, e.lpos, k));
                    }
                }
            }
            Role::After(ch) => {
                if let Some(ix) = stack.iter().rposition(|w| w.0 == c.name && w.1 == ch) {
                    stack.truncate(ix);
                }
            }
            Role::None => {}
        }
    }
    out
}
