//! Farm driver: case generation (workload), the paired-run oracles (C08, C16), worker and
//! supervisor processes, minimisation, replay and evidence for C01 / C02 / C03 / C08 / C16.

use crate::rt::*;
use serde_json::{json, Value};
use std::collections::{BTreeMap, BTreeSet, HashSet};
use std::panic::{catch_unwind, AssertUnwindSafe};
use std::path::{Path, PathBuf};
use std::rc::Rc;
use std::time::{Duration, Instant};
use vcore::{Rng, Tier};

pub struct GrammarEntry {
    pub meta_json: &'static str,
    pub run: fn(Sim) -> RunOut,
}

#[derive(Clone, Debug)]
pub enum Fail {
    Panic(String),
    Hang,
}

struct G {
    meta: Rc<Meta>,
    run: fn(Sim) -> RunOut,
    name_hash: u64,
}

thread_local! {
    /// violations the monitor had already recorded when a run failed to return (panic / step budget)
    static PENDING: std::cell::RefCell<Vec<Viol>> = const { std::cell::RefCell::new(Vec::new()) };
}

fn exec(g: &G, case: &Case, check_peek: bool) -> Result<RunOut, Fail> {
    let sim = Sim::new(g.meta.clone(), case.clone(), check_peek);
    let keep = sim.clone();
    let _ = vcore::take_last_panic();
    let run = g.run;
    match catch_unwind(AssertUnwindSafe(move || run(sim))) {
        Ok(o) => Ok(o),
        Err(e) => {
            if let Ok(st) = keep.0.st.try_borrow() {
                PENDING.with(|p| p.borrow_mut().extend(st.viols.iter().cloned()));
            }
            if e.downcast_ref::<StepBudgetExceeded>().is_some() {
                Err(Fail::Hang)
            } else {
                let (loc, msg) = vcore::take_last_panic().unwrap_or_default();
                if std::env::var("PARSIM_DEBUG").is_ok() {
                    eprintln!("panic at {loc}: {msg}");
                }
                // generated code lives in the farm directory: keep the file name only
                let file = loc.rsplit('/').next().unwrap_or(&loc).split(':').next().unwrap_or("").to_string();
                let file = if file.ends_with(".generated.rs") { "generated.rs".to_string() } else { file };
                Err(Fail::Panic(vcore::panic_site(&file, &msg)))
            }
        }
    }
}

// ------------------------------------------------------------------------------------------
// workload: token sequences

fn noise_tokens(meta: &Meta) -> Vec<u16> {
    let mut v = vec![meta.tok_error];
    for (i, t) in meta.model.tokens.iter().enumerate() {
        if t.skipped {
            v.push(meta.tok_base + i as u16);
        }
    }
    v
}
fn plain_tokens(meta: &Meta) -> Vec<u16> {
    meta.model.tokens.iter().enumerate().filter(|(_, t)| !t.skipped).map(|(i, _)| meta.tok_base + i as u16).collect()
}

fn gen_tokens(rng: &mut Rng, meta: &Meta, entry: usize) -> (Vec<u16>, &'static str) {
    let plain = plain_tokens(meta);
    if plain.is_empty() {
        return (vec![], "empty");
    }
    let rule = meta.entries[entry].1;
    let mut toks: Vec<u16> = meta.model.derive(rng, rule, 30).into_iter().map(|t| meta.tok_base + t).collect();
    let kind;
    match rng.below(100) {
        0..=29 => kind = "sentence",
        30..=59 => {
            kind = "mutant";
            for _ in 0..rng.range(1, 3) {
                let n = toks.len();
                match rng.below(5) {
                    0 if n > 0 => {
                        toks.remove(rng.below(n));
                    }
                    1 => toks.insert(rng.below(n + 1), *rng.pick(&plain)),
                    2 if n > 0 => {
                        let i = rng.below(n);
                        toks[i] = *rng.pick(&plain);
                    }
                    3 if n > 0 => {
                        let i = rng.below(n);
                        let t = toks[i];
                        toks.insert(i, t);
                    }
                    _ => {
                        if n > 1 {
                            let i = rng.below(n - 1);
                            toks.swap(i, i + 1);
                        }
                    }
                }
            }
        }
        60..=79 => {
            // end of input at an arbitrary instant
            kind = "truncated";
            let n = toks.len();
            toks.truncate(rng.below(n + 1));
        }
        80..=93 => {
            kind = "soup";
            toks = (0..rng.below(16)).map(|_| *rng.pick(&plain)).collect();
        }
        _ => {
            kind = "run_of_one_token";
            let t = *rng.pick(&plain);
            toks = vec![t; rng.range(1, 40)];
        }
    }
    toks.truncate(48);
    (toks, kind)
}

/// insert skipped / Error tokens at seeded gaps (including before the first and after the last token)
fn add_noise(rng: &mut Rng, meta: &Meta, toks: &[u16], rate_256: usize) -> Vec<u16> {
    let noise = noise_tokens(meta);
    let mut out = Vec::with_capacity(toks.len() * 2);
    for gap in 0..=toks.len() {
        if rng.below(256) < rate_256 {
            for _ in 0..rng.range(1, 3) {
                out.push(*rng.pick(&noise));
            }
        }
        if gap < toks.len() {
            out.push(toks[gap]);
        }
    }
    out
}

fn gen_case(rng: &mut Rng, g: &G, prop: &str) -> (Case, &'static str) {
    let meta = &g.meta;
    let entry = rng.below(meta.entries.len());
    let (mut toks, kind) = gen_tokens(rng, meta, entry);
    let biases = [0u16, 64, 128, 192, 256];
    let mut case = Case {
        entry,
        tokens: vec![],
        run_seed: rng.next_u64(),
        pred_bias: *rng.pick(&biases),
        assert_bias: *rng.pick(&[0u16, 0, 16, 64]),
        overrides: vec![],
        dyn_skip: vec![],
        markers: true,
        probe_bias: 0,
    };
    match prop {
        "C16" => {
            // base input without noise; the noisy variants are derived from run_seed in `judge`
        }
        "C08" => {
            if rng.chance(1, 2) {
                toks = add_noise(rng, meta, &toks, 40);
            }
        }
        _ => {
            if rng.chance(2, 3) {
                let rate = *rng.pick(&[16usize, 48, 128]);
                toks = add_noise(rng, meta, &toks, rate);
            }
            if rng.chance(1, 5) {
                let plain = plain_tokens(meta);
                for t in plain {
                    if rng.chance(1, 6) {
                        case.dyn_skip.push(t);
                    }
                }
            }
            case.probe_bias = *rng.pick(&[0u16, 0, 32, 128]);
            case.markers = rng.chance(1, 2);
        }
    }
    toks.truncate(64);
    case.tokens = toks;
    (case, kind)
}

// ------------------------------------------------------------------------------------------
// judging one case for one property

pub struct Judged {
    pub viols: Vec<Viol>,
    pub fail: Option<Fail>,
    pub runs: usize,
    pub trace_hashes: Vec<u64>,
    pub nontrivial: bool,
    pub probes: Vec<Probes>,
    pub noise_injected: (usize, usize),
    pub abandoned: usize,
    pub paired: bool,
}

fn trace_hash(g: &G, o: &RunOut) -> u64 {
    let mut acc = vec![g.name_hash];
    for e in &o.events {
        acc.push(((e.cb as u64) << 32) | ((e.kind as u64) << 24) | ((e.answer as u64) << 16) | e.lpos as u64);
    }
    for n in &o.nodes {
        acc.push(match n {
            NodeV::Rule(k, off) => ((*k as u64) << 32) | *off as u64,
            NodeV::Token(t, _) => 0xFFFF_0000_0000 | *t as u64,
        });
    }
    vcore::h(&acc)
}

fn owned(prop: &str, oracle: &str) -> bool {
    oracle.starts_with(prop)
}

fn count_noise(meta: &Meta, toks: &[u16]) -> (usize, usize) {
    let e = toks.iter().filter(|t| **t == meta.tok_error).count();
    let s = toks.iter().filter(|t| meta.is_static_skip(**t) && **t != meta.tok_error).count();
    (e, s)
}

/// events outside abandoned attempts, as comparable tuples
fn committed_trace(meta: &Meta, events: &[Event], abandoned: &HashSet<(u32, u32)>) -> Vec<(u32, u8, u32, u8, u8)> {
    let mut out = vec![];
    let mut skipping = false;
    for e in events {
        let role = if e.kind == 2 { meta.callbacks[e.cb as usize].role } else { Role::None };
        let is_probe = !matches!(role, Role::None);
        if skipping {
            if matches!(role, Role::Alt(..) | Role::After(_)) {
                skipping = false;
            } else {
                continue;
            }
        }
        let ans = if matches!(role, Role::Alt(..)) { 0 } else { e.answer };
        let _ = is_probe;
        out.push((e.cb, e.kind, e.lpos, ans, e.flags & 0b110));
        if matches!(role, Role::Alt(..)) && abandoned.contains(&(e.cb, e.lpos)) {
            skipping = true;
        }
    }
    out
}

fn judge(g: &G, case: &Case, prop: &str) -> Judged {
    PENDING.with(|p| p.borrow_mut().clear());
    let mut j = judge_inner(g, case, prop);
    // invariants that had already failed inside a run that then did not return a tree
    PENDING.with(|p| {
        for v in p.borrow_mut().drain(..) {
            if owned(prop, v.oracle) && !j.viols.iter().any(|x| x.oracle == v.oracle) {
                j.viols.push(v);
            }
        }
    });
    j
}

fn judge_inner(g: &G, case: &Case, prop: &str) -> Judged {
    let meta = &g.meta;
    let mut j = Judged { viols: vec![], fail: None, runs: 0, trace_hashes: vec![], nontrivial: false, probes: vec![], noise_injected: (0, 0), abandoned: 0, paired: false };
    let mut push = |j: &mut Judged, o: &RunOut| {
        j.runs += 1;
        j.trace_hashes.push(trace_hash(g, o));
        if o.events.iter().any(|e| e.kind <= 2 || e.kind == 5) || o.nodes.iter().any(|n| matches!(n, NodeV::Token(t, _) if meta.is_static_skip(*t))) {
            j.nontrivial = true;
        }
        for v in &o.viols {
            if owned(prop, v.oracle) && !j.viols.iter().any(|x| x.oracle == v.oracle) {
                j.viols.push(v.clone());
            }
        }
    };
    match prop {
        "C16" => {
            let base_toks: Vec<u16> = case.tokens.iter().copied().filter(|t| !meta.is_static_skip(*t)).collect();
            let mut base = case.clone();
            base.tokens = base_toks.clone();
            base.dyn_skip.clear();
            let b = match exec(g, &base, true) {
                Ok(o) => o,
                Err(f) => {
                    j.fail = Some(f);
                    return j;
                }
            };
            push(&mut j, &b);
            let mut variants: Vec<Vec<u16>> = vec![];
            if case.tokens.len() != base_toks.len() {
                variants.push(case.tokens.clone());
            }
            let mut rng = Rng::new(vcore::h(&[case.run_seed, 0xC16]));
            for rate in [24usize, 96, 230] {
                variants.push(add_noise(&mut rng, meta, &base_toks, rate));
            }
            // noise only before the first / only after the last token
            let noise = noise_tokens(meta);
            let mut v = vec![*rng.pick(&noise)];
            v.extend(&base_toks);
            variants.push(v);
            let mut v = base_toks.clone();
            v.push(*rng.pick(&noise));
            variants.push(v);
            for vt in variants {
                let mut c = base.clone();
                c.tokens = vt;
                let (e, s) = count_noise(meta, &c.tokens);
                j.noise_injected.0 += e;
                j.noise_injected.1 += s;
                let o = match exec(g, &c, true) {
                    Ok(o) => o,
                    Err(f) => {
                        j.fail = Some(f);
                        return j;
                    }
                };
                push(&mut j, &o);
                if o.norm_tree != b.norm_tree {
                    let at = o.norm_tree.iter().zip(b.norm_tree.iter()).position(|(a, b)| a != b).unwrap_or(o.norm_tree.len().min(b.norm_tree.len()));
                    j.viols.push(Viol { oracle: "C16.tree_changes_with_skipped_tokens", detail: format!("with noise {:?} the tree (skipped leaves ignored) differs from the tree without noise at element {at}; noisy input {:?}", count_noise(meta, &c.tokens), c.tokens), at_event: 0 });
                } else if o.norm_diags != b.norm_diags {
                    j.viols.push(Viol { oracle: "C16.diagnostics_change_with_skipped_tokens", detail: format!("without noise: {:?}; with noise: {:?}; noisy input {:?}", b.norm_diags, o.norm_diags, c.tokens), at_event: 0 });
                } else {
                    let ta: Vec<_> = b.events.iter().map(|e| (e.cb, e.kind, e.lpos, e.answer)).collect();
                    let tb: Vec<_> = o.events.iter().map(|e| (e.cb, e.kind, e.lpos, e.answer)).collect();
                    if ta != tb {
                        j.viols.push(Viol { oracle: "C16.callback_trace_changes_with_skipped_tokens", detail: format!("noisy input {:?}", c.tokens), at_event: 0 });
                    }
                }
                j.probes.push(o.probes);
                if !j.viols.is_empty() {
                    break;
                }
            }
            j.probes.push(b.probes);
            j.paired = true;
        }
        "C08" => {
            let r2 = match exec(g, case, false) {
                Ok(o) => o,
                Err(f) => {
                    j.fail = Some(f);
                    return j;
                }
            };
            push(&mut j, &r2);
            let ab = abandoned_attempts(meta, &r2.events);
            j.abandoned = ab.len();
            if !ab.is_empty() {
                let mut c1 = case.clone();
                for (cb, lpos) in &ab {
                    c1.overrides.push((*cb, *lpos, 1));
                }
                let r1 = match exec(g, &c1, false) {
                    Ok(o) => o,
                    Err(f) => {
                        j.fail = Some(f);
                        return j;
                    }
                };
                push(&mut j, &r1);
                j.paired = true;
                let abset: HashSet<(u32, u32)> = ab.iter().copied().collect();
                if r1.nodes != r2.nodes {
                    j.viols.push(Viol { oracle: "C08.abandoned_attempt_changes_tree", detail: format!("the final tree differs from the run in which the {} abandoned attempt(s) were aborted before they did anything ({} vs {} nodes)", ab.len(), r2.nodes.len(), r1.nodes.len()), at_event: 0 });
                } else if r1.diags != r2.diags {
                    j.viols.push(Viol {
                        oracle: "C08.abandoned_attempt_changes_diagnostics",
                        detail: format!("diagnostics with the attempts run: {:?}; with the attempts aborted at their start: {:?}", r2.norm_diags, r1.norm_diags),
                        at_event: 0,
                    });
                } else if committed_trace(meta, &r1.events, &abset) != committed_trace(meta, &r2.events, &abset) {
                    j.viols.push(Viol { oracle: "C08.abandoned_attempt_changes_later_behaviour", detail: "the callback history outside the abandoned attempts differs (callbacks, positions, answers or error-state flags)".into(), at_event: 0 });
                }
                j.probes.push(r1.probes);
            }
            j.probes.push(r2.probes);
        }
        _ => match exec(g, case, false) {
            Ok(o) => {
                push(&mut j, &o);
                let (e, s) = count_noise(meta, &case.tokens);
                j.noise_injected = (e, s);
                j.probes.push(o.probes);
            }
            Err(f) => j.fail = Some(f),
        },
    }
    j
}

/// the violations a case shows for `prop`, including failures to return a tree
fn verdicts(g: &G, case: &Case, prop: &str) -> (Vec<(String, String)>, Judged) {
    let (mut v, j) = verdicts_raw(g, case, prop);
    // a grammar with a known-finding shape reports everything it shows under that shape's signature
    if let Some(tag) = g.meta.shape_tags.first() {
        // what the shape explains: tree corruption explains anything observed on the grammar; the spinning loop only
        // explains a run that makes no progress
        let explains = |oracle: &str| tag != "return_without_consumption_in_loop" || oracle.ends_with("no_progress");
        let (mut explained, others): (Vec<_>, Vec<_>) = v.into_iter().partition(|(o, _)| explains(o));
        v = others;
        if !explained.is_empty() {
            let first = explained.remove(0);
            v.insert(0, (format!("{prop}.{tag}"), format!("[{}] {}", first.0, first.1)));
        }
    }
    (v, j)
}
fn verdicts_raw(g: &G, case: &Case, prop: &str) -> (Vec<(String, String)>, Judged) {
    let j = judge(g, case, prop);
    let mut v: Vec<(String, String)> = j.viols.iter().map(|x| (x.oracle.to_string(), x.detail.clone())).collect();
    if let Some(f) = &j.fail {
        let (cls, det) = match f {
            Fail::Panic(site) => (format!("panic:{site}"), format!("the generated parser panicked: {site}")),
            Fail::Hang => ("no_progress".to_string(), "the generated parser exceeded the callback-step budget (it loops or recurses without consuming input)".to_string()),
        };
        // not returning a tree violates totality (C03) and losslessness (C01); for the paired properties it is reported
        // by C03's own runs, not here
        if prop == "C03" || prop == "C01" {
            v.push((format!("{prop}.{cls}"), det));
        }
    }
    (v, j)
}

fn minimise(g: &G, case: &Case, prop: &str, oracle: &str) -> Case {
    let mut best = case.clone();
    let shows = |c: &Case| verdicts(g, c, prop).0.iter().any(|(o, _)| o == oracle);
    let mut budget = 600usize;
    // tokens
    let mut changed = true;
    while changed && budget > 0 {
        changed = false;
        let mut i = best.tokens.len();
        while i > 0 && budget > 0 {
            i -= 1;
            let mut c = best.clone();
            c.tokens.remove(i);
            budget -= 1;
            if shows(&c) {
                best = c;
                changed = true;
            }
        }
    }
    // simpler adversary
    for f in [
        (|c: &mut Case| c.dyn_skip.clear()) as fn(&mut Case),
        |c| c.probe_bias = 0,
        |c| c.assert_bias = 0,
        |c| c.pred_bias = 0,
        |c| c.pred_bias = 256,
        |c| c.markers = false,
        |c| c.overrides.clear(),
    ] {
        let mut c = best.clone();
        f(&mut c);
        if shows(&c) {
            best = c;
        }
    }
    best
}

// ------------------------------------------------------------------------------------------
// worker

#[derive(Default)]
struct WStats {
    units: usize,
    runs: usize,
    nontrivial_units: usize,
    hashes: HashSet<u64>,
    probes: BTreeMap<&'static str, usize>,
    input_kinds: BTreeMap<&'static str, usize>,
    grammars_run: BTreeSet<usize>,
    paired: usize,
    abandoned: usize,
    noise_error: usize,
    noise_skip: usize,
    fails_hang: usize,
    fails_panic: usize,
}

fn add_probes(m: &mut BTreeMap<&'static str, usize>, p: &Probes) {
    for (k, v) in [
        ("predicate_answers_true", p.preds_true),
        ("predicate_answers_false", p.preds_false),
        ("assertions_failed", p.asserts_failed),
        ("assertion_injected_aborts_inside_attempt", p.asserts_failed_in_attempt),
        ("assertions_ok", p.asserts_ok),
        ("created_callbacks", p.creates),
        ("deleted_callbacks", p.deletes),
        ("deleted_callbacks_for_unannounced_placeholders", p.deletes_of_unannounced),
        ("action_callbacks", p.actions),
        ("parser_diagnostics_created", p.diags),
        ("attempts_abandoned_then_state_compared", p.attempts_abandoned),
        ("choice_windows", p.windows),
        ("wrapper_insertions_before_a_mark", p.insertions),
        ("wrapper_inserted_before_mark_with_trailing_trivia", p.insert_before_mark_with_trailing_trivia),
        ("error_node_closed_inside_an_attempt", p.error_node_closed_inside_attempt),
        ("deleted_callback_for_renamed_or_created_kind", p.delete_of_renamed_kind),
        ("dynamic_predicate_skips", p.dyn_skips),
        ("lookahead_checks_at_callbacks", p.peeks_checked),
        ("rollback_truncations_observed", p.truncations),
    ] {
        *m.entry(k).or_default() += v;
    }
}

fn unit_count(gs: &[G], prop: &str, tier: Tier) -> (usize, Vec<usize>) {
    let per = match (prop, tier) {
        ("C08", Tier::Quick) => 6000,
        ("C08", Tier::Thorough) => 12000,
        ("C16", Tier::Quick) => 1500,
        ("C16", Tier::Thorough) => 4000,
        (_, Tier::Quick) => 6000,
        (_, Tier::Thorough) => 12000,
    };
    let eligible: Vec<usize> = gs.iter().enumerate().filter(|(_, g)| prop != "C08" || g.meta.has_choice).map(|(i, _)| i).collect();
    (per, eligible)
}

fn unit_case(g: &G, prop: &str, seed: u64, r: usize) -> (Case, &'static str) {
    let mut rng = Rng::new(vcore::h(&[seed, vcore::hash_str(prop), g.name_hash, r as u64]));
    gen_case(&mut rng, g, prop)
}

fn worker(gs: &[G], prop: &str, tier: Tier, seed: u64, w: usize, nw: usize, skip: &BTreeSet<usize>, dir: &Path) {
    use std::io::{Seek, SeekFrom, Write};
    let (per, eligible) = unit_count(gs, prop, tier);
    let total = per * eligible.len();
    let mut progress = std::fs::File::create(dir.join(format!("progress{w}"))).expect("progress file");
    let mut st = WStats::default();
    let mut found: Vec<Value> = vec![];
    let mut found_sigs: BTreeSet<String> = BTreeSet::new();
    let mut samples: Vec<Value> = vec![];
    let mut u = w;
    while u < total {
        if skip.contains(&u) {
            u += nw;
            continue;
        }
        let _ = progress.seek(SeekFrom::Start(0));
        let _ = progress.write_all(&(u as u64).to_le_bytes());
        // interleave grammars: consecutive units belong to different grammars
        let gi = eligible[u % eligible.len()];
        let r = u / eligible.len();
        let g = &gs[gi];
        let (case, kind) = unit_case(g, prop, seed, r);
        let (vs, j) = verdicts(g, &case, prop);
        st.units += 1;
        st.runs += j.runs;
        st.grammars_run.insert(gi);
        *st.input_kinds.entry(kind).or_default() += 1;
        if j.nontrivial {
            st.nontrivial_units += 1;
            st.hashes.extend(j.trace_hashes.iter().copied());
        }
        for p in &j.probes {
            add_probes(&mut st.probes, p);
        }
        if j.paired {
            st.paired += 1;
        }
        st.abandoned += j.abandoned;
        st.noise_error += j.noise_injected.0;
        st.noise_skip += j.noise_injected.1;
        match &j.fail {
            Some(Fail::Hang) => st.fails_hang += 1,
            Some(Fail::Panic(_)) => st.fails_panic += 1,
            None => {}
        }
        if u < 64 && j.nontrivial {
            samples.push(json!({"unit": u, "grammar": g.meta.name, "grammar_origin": g.meta.origin, "entry": g.meta.entries[case.entry].0, "input_kind": kind,
                "tokens": case.tokens.iter().map(|t| g.meta.token_names[*t as usize].clone()).collect::<Vec<_>>(),
                "pred_bias_256": case.pred_bias, "assert_bias_256": case.assert_bias, "probe_bias_256": case.probe_bias,
                "dyn_skip": case.dyn_skip.iter().map(|t| g.meta.token_names[*t as usize].clone()).collect::<Vec<_>>(), "parser_runs": j.runs}));
        }
        for (oracle, detail) in vs {
            if found_sigs.insert(oracle.clone()) {
                let min = minimise(g, &case, prop, &oracle);
                let (v2, _) = verdicts(g, &min, prop);
                let detail2 = v2.iter().find(|(o, _)| *o == oracle).map(|(_, d)| d.clone()).unwrap_or(detail);
                found.push(json!({
                    "signature": oracle, "detail": detail2, "unit": u, "grammar_index": gi, "grammar": g.meta.name, "grammar_origin": g.meta.origin,
                    "grammar_text": g.meta.text, "case": min, "original_tokens": case.tokens.len(),
                    "tokens_named": min.tokens.iter().map(|t| g.meta.token_names[*t as usize].clone()).collect::<Vec<_>>(),
                    "entry": g.meta.entries[min.entry].0,
                }));
            }
        }
        u += nw;
    }
    let mut hv: Vec<u64> = st.hashes.iter().copied().collect();
    hv.sort();
    let mut bytes = Vec::with_capacity(hv.len() * 8);
    for h in hv {
        bytes.extend_from_slice(&h.to_le_bytes());
    }
    std::fs::write(dir.join(format!("hashes{w}")), bytes).expect("write hashes");
    let out = json!({
        "units": st.units, "runs": st.runs, "nontrivial_units": st.nontrivial_units, "probes": st.probes, "input_kinds": st.input_kinds,
        "grammars_run": st.grammars_run.len(), "paired": st.paired, "abandoned": st.abandoned, "noise_error": st.noise_error, "noise_skip": st.noise_skip,
        "fails_hang": st.fails_hang, "fails_panic": st.fails_panic, "found": found, "samples": samples,
    });
    std::fs::write(dir.join(format!("result{w}.json")), serde_json::to_string(&out).unwrap()).expect("write result");
}

// ------------------------------------------------------------------------------------------
// supervisor

fn supervise(gs: &[G], prop: &str, tier: Tier, seed: u64) -> i32 {
    use std::process::{Command, Stdio};
    let t0 = Instant::now();
    let nw = vcore::workers();
    let dir = PathBuf::from(format!("/verif/target/scratch/parsim/{}-{prop}", std::process::id()));
    let _ = std::fs::remove_dir_all(&dir);
    std::fs::create_dir_all(&dir).expect("scratch");
    let me = std::env::current_exe().expect("current_exe");
    let (per, eligible) = unit_count(gs, prop, tier);
    let total = per * eligible.len();
    if eligible.is_empty() {
        vcore::harness_error(&format!("the farm has no grammar eligible for {prop}"));
    }
    let mut process_failures: Vec<(usize, String)> = vec![];
    let mut skip: Vec<BTreeSet<usize>> = vec![BTreeSet::new(); nw];
    let spawn = |w: usize, skip: &BTreeSet<usize>| {
        let skip_s: Vec<String> = skip.iter().map(|u| u.to_string()).collect();
        // 4 GiB address-space limit per worker: a parser that spins at end of input pushes a node per iteration
        Command::new("/bin/sh")
            .arg("-c")
            .arg(format!(
                "ulimit -v 4194304; exec '{}' worker {prop} {} {seed} {w} {nw} '{}' '{}'",
                me.display(),
                tier.name(),
                dir.display(),
                skip_s.join(",")
            ))
            .stdin(Stdio::null())
            .stdout(Stdio::null())
            .stderr(Stdio::null())
            .spawn()
            .expect("spawn worker")
    };
    let mut children: Vec<Option<std::process::Child>> = (0..nw).map(|w| Some(spawn(w, &skip[w]))).collect();
    let mut last_progress: Vec<(u64, Instant)> = vec![(u64::MAX, Instant::now()); nw];
    loop {
        let mut alive = 0;
        for w in 0..nw {
            let Some(ch) = children[w].as_mut() else { continue };
            match ch.try_wait().expect("try_wait") {
                Some(st) if st.success() => children[w] = None,
                Some(st) => {
                    // the worker died: the unit in its progress file is the culprit; rerun without it
                    let u = read_progress(&dir, w);
                    use std::os::unix::process::ExitStatusExt;
                    process_failures.push((u as usize, format!("worker process died ({}) — stack overflow, abort or out of memory", st.signal().map_or(format!("{st}"), |s| format!("signal {s}")))));
                    skip[w].insert(u as usize);
                    if skip[w].len() > 50 {
                        vcore::harness_error("more than 50 worker deaths in one partition");
                    }
                    children[w] = Some(spawn(w, &skip[w]));
                    last_progress[w] = (u64::MAX, Instant::now());
                    alive += 1;
                }
                None => {
                    alive += 1;
                    let u = read_progress(&dir, w);
                    if u != last_progress[w].0 {
                        last_progress[w] = (u, Instant::now());
                    } else if last_progress[w].1.elapsed() > Duration::from_secs(60) {
                        // hang watchdog: one unit normally takes micro- to milliseconds
                        let _ = ch.kill();
                        let _ = ch.wait();
                        process_failures.push((u as usize, "no progress for 60 s (hang outside any callback)".to_string()));
                        skip[w].insert(u as usize);
                        children[w] = Some(spawn(w, &skip[w]));
                        last_progress[w] = (u64::MAX, Instant::now());
                    }
                }
            }
        }
        if alive == 0 {
            break;
        }
        std::thread::sleep(Duration::from_millis(20));
    }
    // merge
    let mut hashes: HashSet<u64> = HashSet::new();
    let mut tot = BTreeMap::<String, u64>::new();
    let mut probes = BTreeMap::<String, u64>::new();
    let mut input_kinds = BTreeMap::<String, u64>::new();
    let mut found: Vec<Value> = vec![];
    let mut samples: Vec<Value> = vec![];
    for w in 0..nw {
        let text = std::fs::read_to_string(dir.join(format!("result{w}.json"))).unwrap_or_else(|_| vcore::harness_error("worker result missing"));
        let v: Value = serde_json::from_str(&text).expect("worker result parses");
        for k in ["units", "runs", "nontrivial_units", "paired", "abandoned", "noise_error", "noise_skip", "fails_hang", "fails_panic"] {
            *tot.entry(k.to_string()).or_default() += v[k].as_u64().unwrap_or(0);
        }
        for (k, x) in v["probes"].as_object().cloned().unwrap_or_default() {
            *probes.entry(k).or_default() += x.as_u64().unwrap_or(0);
        }
        for (k, x) in v["input_kinds"].as_object().cloned().unwrap_or_default() {
            *input_kinds.entry(k).or_default() += x.as_u64().unwrap_or(0);
        }
        found.extend(v["found"].as_array().cloned().unwrap_or_default());
        samples.extend(v["samples"].as_array().cloned().unwrap_or_default());
        samples.sort_by_key(|x| x["unit"].as_u64().unwrap_or(u64::MAX));
        samples.truncate(2);
        let hb = std::fs::read(dir.join(format!("hashes{w}"))).unwrap_or_default();
        for c in hb.chunks_exact(8) {
            hashes.insert(u64::from_le_bytes(c.try_into().unwrap()));
        }
    }
    // one report per signature: lowest unit
    found.sort_by_key(|f| (f["signature"].as_str().unwrap_or("").to_string(), f["unit"].as_u64().unwrap_or(0)));
    found.dedup_by(|b, a| a["signature"] == b["signature"]);
    let mut verdicts = vcore::Verdicts::new(prop);
    for f in &found {
        let sig = f["signature"].as_str().unwrap_or("").to_string();
        let mut r = f.clone();
        r["engine"] = json!("parsim");
        r["seed"] = json!(seed);
        verdicts.violation(&sig, &r);
    }
    for (u, what) in &process_failures {
        // pinned to one unit: regenerate the case for the replay file
        let gi = eligible[u % eligible.len()];
        let r = u / eligible.len();
        let g = &gs[gi];
        let (case, _) = unit_case(g, prop, seed, r);
        // a grammar with a known-finding shape reports under that shape's signature
        let sig = match g.meta.shape_tags.first() {
            Some(tag) => format!("{prop}.{tag}"),
            None => format!("{prop}.process_death"),
        };
        if prop == "C03" || prop == "C01" {
            verdicts.violation(&sig, &json!({"engine": "parsim", "seed": seed, "detail": what, "unit": u, "grammar": g.meta.name, "grammar_origin": g.meta.origin, "grammar_text": g.meta.text, "case": case}));
        }
    }
    // reach probes stuck at zero
    let want: &[&str] = match prop {
        "C08" => &["attempts_abandoned_then_state_compared", "deleted_callbacks", "assertion_injected_aborts_inside_attempt", "rollback_truncations_observed", "error_node_closed_inside_an_attempt"],
        "C16" => &["lookahead_checks_at_callbacks", "wrapper_insertions_before_a_mark"],
        _ => &["wrapper_insertions_before_a_mark", "wrapper_inserted_before_mark_with_trailing_trivia", "dynamic_predicate_skips", "parser_diagnostics_created", "created_callbacks"],
    };
    for p in want {
        if probes.get(*p).copied().unwrap_or(0) == 0 {
            println!("WARNING: reach probe '{p}' is at 0");
        }
    }
    let code = verdicts.finish();
    let wall = t0.elapsed().as_secs_f64();
    let farm_report: Value = std::fs::read_to_string(std::env::var("PARSIM_FARM_REPORT").unwrap_or_default()).ok().and_then(|t| serde_json::from_str(&t).ok()).unwrap_or(json!({}));
    let runs = tot["runs"];
    let title = match prop {
        "C01" => "lossless tree: leaf sequence = input tokens (kind, span, order) through the public read API, prefix invariant and token counter at every callback",
        "C02" => "well-formed tree: extents nest and partition, spans nest and are ordered, no rule node starts/ends with a skipped token, announced nodes have kind and complete subtree at the callback",
        "C03" => "totality: every run returns a tree within the callback-step budget; panics caught, process deaths pinned to a unit",
        "C08" => "backtracking leaves no trace: abort-point independence (paired runs), state equality at the restore, conservation of created/deleted callbacks and their diagnostics, no action in an attempt, choice mode over when the choice is over",
        _ => "skipped tokens transparent: paired runs with noise on the lexer->parser channel (same stateless answer table keyed by logical position), lookahead checked at every predicate/assertion callback",
    };
    vcore::Evidence {
        property_id: prop.into(),
        tier,
        seed,
        level: "exploration",
        coverage: json!({
            "evaluations": runs,
            "distinct_nontrivial": hashes.len(),
            "run_digest": format!("{:016x}", hashes.iter().fold(0u64, |a, h| a ^ vcore::mix(*h))),
            "rule": format!("evaluation = one execution of a generated parser (real skeleton + emitted rule code, compiled from /repo at check time) against the simulated other party (lexer vector incl. injected Error/skipped tokens, stateless adversarial predicate/assertion/predicate_skip answers keyed by (callback, logical position), monitor in every callback). {title}. Units: {} grammars x {} seeded cases; non-trivial = the run contained an adversary decision, a diagnostic or injected noise; distinct = different hash of (grammar, callback-event trace with answers and logical positions, final node vector).", eligible.len(), per),
            "samples": samples,
            "units": tot["units"],
            "units_planned": total,
            "nontrivial_units": tot["nontrivial_units"],
            "grammars_in_farm": gs.len(),
            "grammars_eligible": eligible.len(),
            "farm": farm_report,
            "input_kinds": input_kinds,
            "paired_units": tot["paired"],
            "abandoned_attempts_replayed_as_early_aborts": tot["abandoned"],
            "fault_kinds_fired": {
                "error_tokens_injected": tot["noise_error"],
                "skipped_tokens_injected": tot["noise_skip"],
                "predicate_answers_true": probes.get("predicate_answers_true"),
                "predicate_answers_false": probes.get("predicate_answers_false"),
                "assertions_failed": probes.get("assertions_failed"),
                "assertion_injected_aborts_inside_attempt": probes.get("assertion_injected_aborts_inside_attempt"),
                "dynamic_predicate_skips": probes.get("dynamic_predicate_skips"),
                "end_of_input_at_arbitrary_instant_inputs": input_kinds.get("truncated"),
            },
            "reach_probes": probes,
            "runs_not_returning_a_tree": {"step_budget": tot["fails_hang"], "panic": tot["fails_panic"], "process_death": process_failures.len()},
            "runs_per_hour": (runs as f64 / wall * 3600.0) as u64,
            "simulated_time_s": 0,
            "simulated_time_note": "generated parsers have no clock; progress is measured in callback events",
            "real_vs_stub": {
                "real": ["lelwel front end + analysis + RustOutput producing generated.rs for every farm grammar at check time", "skeleton runtime (Parser, CstData, expect!/try_expect!, get_state/set_state) and emitted rule functions, compiled by rustc"],
                "simulated": ["the lexer (token vector, spans)", "ParserCallbacks implementation = adversary + monitor", "Diagnostic type"],
            },
        }),
        assumptions: vec![
            "grammar and input generators are workload; only grammars lelwel accepts without error, with every rule productive and without a consumption-free cycle, are in the farm".into(),
            "answers are a pure function of (seed, callback, logical position) plus explicit overrides, so paired runs see identical answers".into(),
            "the monitor reads private parser state through an impl in the same module as the included generated code (no hook in /repo)".into(),
            "rule-node identity across wrapper insertions is tracked by aligning consecutive node-vector snapshots".into(),
        ],
        wall_s: wall,
        violations: verdicts.count_new(),
        extra: json!({"engine": "parsim"}),
    }
    .write();
    println!(
        "parsim: property={prop} tier={} seed={seed} grammars={} units={} parser_runs={runs} distinct={} no_tree={{budget:{},panic:{},death:{}}} new_violations={} known={} wall={wall:.1}s",
        tier.name(), eligible.len(), tot["units"], hashes.len(), tot["fails_hang"], tot["fails_panic"], process_failures.len(), verdicts.count_new(), verdicts.known_hits.len()
    );
    let _ = std::fs::remove_dir_all(&dir);
    code
}

fn read_progress(dir: &Path, w: usize) -> u64 {
    let b = std::fs::read(dir.join(format!("progress{w}"))).unwrap_or_default();
    if b.len() >= 8 {
        u64::from_le_bytes(b[..8].try_into().unwrap())
    } else {
        u64::MAX
    }
}

fn replay(gs: &[G], file: &str) -> i32 {
    let text = std::fs::read_to_string(file).unwrap_or_else(|e| vcore::harness_error(&format!("cannot read {file}: {e}")));
    let v: Value = serde_json::from_str(&text).unwrap_or_else(|e| vcore::harness_error(&format!("replay file does not parse: {e}")));
    let prop = v["property_id"].as_str().unwrap_or("").to_string();
    let sig = v["signature"].as_str().unwrap_or("").to_string();
    let case: Case = serde_json::from_value(v["case"].clone()).unwrap_or_else(|e| vcore::harness_error(&format!("no case in replay file: {e}")));
    let gtext = v["grammar_text"].as_str().unwrap_or("");
    let Some(g) = gs.iter().find(|g| g.meta.text == gtext) else { vcore::harness_error("the replay farm does not contain the replay file's grammar") };
    let (vs, j) = verdicts(g, &case, &prop);
    println!("replayed on grammar {} ({}), {} tokens, {} parser runs", g.meta.name, g.meta.origin, case.tokens.len(), j.runs);
    for (o, d) in &vs {
        println!("  violation {o} -- {d}");
    }
    if vs.iter().any(|(o, _)| *o == sig) {
        println!("VIOLATION property={prop} replay={file}");
        1
    } else {
        println!("not reproduced: {sig}");
        0
    }
}

pub fn main(registry: Vec<GrammarEntry>) {
    vcore::quiet_panics();
    let args: Vec<String> = std::env::args().collect();
    // the recursive-descent parsers run on a big stack so that legitimate nesting never overflows
    let child = std::thread::Builder::new()
        .stack_size(256 << 20)
        .spawn(move || {
            let gs: Vec<G> = registry
                .iter()
                .map(|e| {
                    let meta: Meta = serde_json::from_str(e.meta_json).expect("meta parses");
                    let name_hash = vcore::hash_str(&meta.text);
                    G { meta: Rc::new(meta), run: e.run, name_hash }
                })
                .collect();
            match args.get(1).map(|s| s.as_str()) {
                Some("run") => supervise(&gs, &args[2], vcore::tier_from_env(), vcore::seed_from_env()),
                Some("worker") => {
                    let tier = if args[3] == "thorough" { Tier::Thorough } else { Tier::Quick };
                    let skip: BTreeSet<usize> = args.get(8).map(|s| s.split(',').filter_map(|x| x.parse().ok()).collect()).unwrap_or_default();
                    worker(&gs, &args[2], tier, args[4].parse().unwrap(), args[5].parse().unwrap(), args[6].parse().unwrap(), &skip, Path::new(&args[7]));
                    0
                }
                Some("replay") => replay(&gs, &args[2]),
                _ => {
                    eprintln!("usage: farm run <PROP> | worker ... | replay <file>");
                    2
                }
            }
        })
        .expect("spawn main thread");
    let code = child.join().unwrap_or(2);
    std::process::exit(code);
}
