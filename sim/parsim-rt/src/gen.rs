//! Seeded random grammars from the typed model (workload): every declaration kind and regex operator,
//! biased toward LL(1) by construction and built to lelwel's acceptance rules; filtered by lelwel itself afterwards.

use crate::model::*;
use vcore::Rng;

// ------------------------------------------------------------------------------------------
// seeded random grammars from the typed model

struct Gen<'r> {
    rng: &'r mut Rng,
    tokens: Vec<TokM>,
    plain: Vec<usize>,
    nrules: usize,
    /// rules generated in "choice region" mode (no actions, no choices, only such callees): callable inside attempts
    safe: Vec<bool>,
    pratt: Vec<bool>,
    names: Vec<String>,
    starters: Vec<usize>,
    choice_no: u8,
    recursive_ok: bool,
    marker_no: usize,
    node_names: usize,
    swarm: Swarm,
    /// side stream for shapes added later (rule call at the head of an alternative, `~` inside an optional part of an
    /// alternative, alternations whose branches are all predicate-guarded): the main stream's decisions stay what they were
    extra: Rng,
}
#[derive(Clone, Copy)]
struct Swarm {
    preds: bool,
    actions: bool,
    asserts: bool,
    choices: bool,
    node_ops: bool,
    returns: bool,
    syms: bool,
}

#[derive(Clone, Copy)]
struct Ctx {
    rule: usize,
    is_start: bool,
    /// inside a non-last, uncommitted alternative of an ordered choice (or a rule callable from one)
    region: bool,
    depth: usize,
}

impl Gen<'_> {
    fn starter(&mut self) -> usize {
        if self.starters.is_empty() {
            let mut p = self.plain.clone();
            self.rng.shuffle(&mut p);
            self.starters = p;
        }
        self.starters.pop().unwrap()
    }
    fn tok_rx(&mut self, t: usize) -> Rx {
        if self.swarm.syms && self.tokens[t].symbol.is_some() && self.rng.chance(1, 2) {
            Rx::Sym(t)
        } else {
            Rx::Tok(t)
        }
    }
    fn callee(&mut self, cx: Ctx) -> Option<usize> {
        // mostly later rules (acyclic); the start rule is never referenced
        let mut cands: Vec<usize> = (cx.rule + 1..self.nrules).collect();
        if self.recursive_ok && self.rng.chance(1, 6) {
            // recursion: the rule itself or an earlier one (only used after a consumed token, see `item`)
            cands = (1..=cx.rule.min(self.nrules - 1)).collect();
        }
        if cx.region {
            cands.retain(|r| self.safe[*r]);
        }
        if cands.is_empty() {
            return None;
        }
        Some(*self.rng.pick(&cands))
    }
    fn item(&mut self, cx: Ctx, first: bool) -> Vec<Rx> {
        let roll = self.rng.below(100);
        let deep = cx.depth >= 3;
        match roll {
            0..=34 => {
                let t = if first { self.starter() } else { *self.rng.pick(&self.plain.clone()) };
                vec![self.tok_rx(t)]
            }
            35..=54 => match {
                self.recursive_ok = !first;
                let c = self.callee(cx);
                self.recursive_ok = false;
                c
            } {
                Some(r) if !first => vec![Rx::Rule(r)],
                _ => {
                    let t = self.starter();
                    vec![self.tok_rx(t)]
                }
            },
            55..=62 if !deep => vec![Rx::Opt(Box::new(self.guarded_seq(cx)))],
            63..=70 if !deep => {
                let b = self.guarded_seq(cx);
                vec![Rx::Star(Box::new(Rx::Paren(Box::new(b))))]
            }
            71..=74 if !deep => {
                let b = self.guarded_seq(cx);
                vec![Rx::Plus(Box::new(Rx::Paren(Box::new(b))))]
            }
            75..=76 if !deep && self.swarm.choices && !cx.region && self.choice_no < 9 => {
                // a repetition whose body is an ordered choice
                let c = self.choice(Ctx { depth: cx.depth + 1, ..cx });
                let body = Rx::Paren(Box::new(Rx::Seq(c)));
                vec![if self.rng.chance(1, 2) { Rx::Star(Box::new(body)) } else { Rx::Plus(Box::new(body)) }]
            }
            75..=82 if !deep => {
                let n = self.rng.range(2, 3);
                let alts: Vec<Rx> = (0..n).map(|_| self.guarded_seq(cx)).collect();
                vec![Rx::Paren(Box::new(Rx::Alt(alts)))]
            }
            83..=90 if !deep && self.swarm.choices && !cx.region && self.choice_no < 9 => self.choice(cx),
            91..=92 if self.swarm.actions && !cx.region => vec![Rx::Action(self.rng.range(1, 3).to_string())],
            93..=94 if self.swarm.asserts => vec![Rx::Assert(self.rng.range(1, 3).to_string())],
            95..=96 if self.swarm.node_ops && !cx.is_start && !self.pratt[cx.rule] => {
                self.node_names += 1;
                vec![Rx::Rename(format!("ren{}", self.node_names % 2))]
            }
            97 if self.swarm.node_ops && !cx.is_start && !self.pratt[cx.rule] => vec![Rx::Elide],
            98..=99 if self.swarm.returns && !cx.is_start && !first => vec![Rx::Return],
            _ => {
                let t = if first { self.starter() } else { *self.rng.pick(&self.plain.clone()) };
                vec![self.tok_rx(t)]
            }
        }
    }
    /// a sequence that starts with a fresh token (optionally behind a predicate): bodies of options,
    /// repetitions and alternation branches
    fn guarded_seq(&mut self, cx: Ctx) -> Rx {
        let mut v = vec![];
        if self.swarm.preds && self.rng.chance(1, 6) {
            v.push(Rx::Pred(if self.rng.chance(1, 4) { "t".into() } else { self.rng.range(1, 3).to_string() }));
        }
        let lead_rule = if self.rng.chance(1, 5) { self.callee(cx) } else { None };
        match lead_rule {
            // the body starts with a rule call (its first set decides the loop / branch)
            Some(r) => v.push(Rx::Rule(r)),
            None => {
                let t = self.starter();
                v.push(self.tok_rx(t));
            }
        }
        let cx2 = Ctx { depth: cx.depth + 1, ..cx };
        for _ in 0..self.rng.below(3) {
            v.extend(self.item(cx2, false));
        }
        self.add_markers(&mut v, cx);
        if v.len() == 1 {
            v.pop().unwrap()
        } else {
            Rx::Seq(v)
        }
    }
    fn add_markers(&mut self, v: &mut Vec<Rx>, cx: Ctx) {
        if self.swarm.node_ops && v.len() >= 2 && self.rng.chance(1, 6) && !cx.is_start {
            let first_ok = if matches!(v[0], Rx::Pred(_)) { 1 } else { 0 };
            let i = self.rng.range(first_ok, v.len() - 1);
            let j = self.rng.range(i + 1, v.len());
            self.marker_no += 1;
            let num = self.marker_no.to_string();
            self.node_names += 1;
            let name = if self.rng.chance(3, 4) { Some(format!("mk{}", self.node_names % 3)) } else { None };
            v.insert(j, Rx::Create { num: Some(num.clone()), name });
            v.insert(i, Rx::Marker(num));
        }
    }
    fn choice(&mut self, cx: Ctx) -> Vec<Rx> {
        let c = self.choice_no;
        self.choice_no += 1;
        let nalts = self.rng.range(2, 3);
        let region = Ctx { region: true, depth: cx.depth + 1, ..cx };
        // a shared prefix makes the choice a real one (one token of lookahead cannot decide it)
        let prefix: Vec<Rx> = {
            let mut p = vec![];
            let t = self.starter();
            p.push(self.tok_rx(t));
            if self.rng.chance(1, 2) {
                if let Some(r) = self.callee(region) {
                    p.push(Rx::Rule(r));
                } else {
                    let t = *self.rng.pick(&self.plain.clone());
                    p.push(self.tok_rx(t));
                }
            }
            // an alternative that starts with a rule call: the callee's node is opened before anything is consumed, so
            // an attempt can be abandoned (assertion, guarded branches all false) with an open node and no progress
            if self.extra.chance(1, 4) {
                let cands: Vec<usize> = (cx.rule + 1..self.nrules).filter(|r| self.safe[*r]).collect();
                if !cands.is_empty() {
                    p[0] = Rx::Rule(*self.extra.pick(&cands));
                }
            }
            p
        };
        let mut alts = vec![];
        for k in 1..=nalts {
            let last = k == nalts;
            let mut v = vec![Rx::Assert(format!("9{c}{k}"))];
            if last && self.rng.chance(1, 2) {
                // the last alternative need not share the prefix
                let t = self.starter();
                v.push(self.tok_rx(t));
            } else {
                v.extend(prefix.iter().cloned());
            }
            let acx = if last { Ctx { depth: cx.depth + 1, ..cx } } else { region };
            let mut committed = false;
            for _ in 0..self.rng.range(1, 3) {
                if !last && !committed && self.rng.chance(1, 5) {
                    v.push(Rx::Commit);
                    committed = true;
                }
                if !last && !committed && self.extra.chance(1, 8) {
                    // `[T ~ U]`: the commit is only reached when the optional part is taken; behind it the alternative
                    // is still undoable when it was skipped
                    let plain = self.plain.clone();
                    let (t, u) = (*self.extra.pick(&plain), *self.extra.pick(&plain));
                    v.push(Rx::Opt(Box::new(Rx::Seq(vec![Rx::Tok(t), Rx::Commit, Rx::Tok(u)]))));
                }
                let icx = if committed { Ctx { depth: cx.depth + 1, ..cx } } else { acx };
                v.extend(self.item(icx, false));
            }
            alts.push(Rx::Seq(v));
        }
        vec![Rx::Assert(format!("9{c}0")), Rx::Paren(Box::new(Rx::Choice(alts))), Rx::Assert(format!("9{c}9"))]
    }
    fn normal_rule(&mut self, r: usize, is_start: bool) -> RuleM {
        let cx = Ctx { rule: r, is_start, region: self.safe[r], depth: 0 };
        self.starters.clear();
        self.choice_no = 0;
        self.marker_no = 0;
        let elided = !is_start && self.swarm.node_ops && self.rng.chance(1, 6);
        let body = if !is_start && self.rng.chance(1, 30) {
            None
        } else if self.rng.chance(1, 4) {
            let n = self.rng.range(2, 4);
            let mut alts: Vec<Rx> = (0..n).map(|_| self.guarded_seq(cx)).collect();
            if self.swarm.preds && self.extra.chance(1, 5) {
                // every branch behind a predicate: with all of them false no branch is left for the token
                for a in alts.iter_mut() {
                    let guarded = match a {
                        Rx::Seq(v) => matches!(v.first(), Some(Rx::Pred(_))),
                        _ => false,
                    };
                    if !guarded {
                        let p = Rx::Pred(self.extra.range(1, 3).to_string());
                        *a = match std::mem::replace(a, Rx::Empty) {
                            Rx::Seq(mut v) => {
                                v.insert(0, p);
                                Rx::Seq(v)
                            }
                            other => Rx::Seq(vec![p, other]),
                        };
                    }
                }
            }
            Some(Rx::Alt(alts))
        } else {
            let mut v = vec![];
            let n = self.rng.range(1, 4);
            let mut committed = false;
            for i in 0..n {
                v.extend(self.item(cx, i == 0));
                // a commit / return inside a rule that is called from an undoable alternative
                if self.safe[r] && self.swarm.choices && !committed && self.rng.chance(1, 5) {
                    v.push(Rx::Commit);
                    committed = true;
                }
                if self.safe[r] && self.swarm.returns && self.rng.chance(1, 4) {
                    v.push(Rx::Return);
                }
            }
            self.add_markers(&mut v, cx);
            // an unused marker (warning W003 only)
            if self.swarm.node_ops && !is_start && self.rng.chance(1, 12) {
                self.marker_no += 1;
                v.insert(0, Rx::Marker(self.marker_no.to_string()));
            }
            // (`>` in a rule that is not elided makes lelwel emit code that does not compile: avoided, see DESIGN §7)
            if !is_start && elided && self.swarm.node_ops && self.rng.chance(1, 2) {
                self.node_names += 1;
                let name = if self.rng.chance(1, 2) { Some(format!("whole{}", self.node_names % 2)) } else { None };
                v.push(Rx::Create { num: None, name });
            }
            Some(if v.len() == 1 { v.pop().unwrap() } else { Rx::Seq(v) })
        };
        // a rule callable from an undoable alternative that starts with an assertion: the adversary can abandon the attempt
        // after the rule's node has been opened and before anything is consumed
        let body = match body {
            Some(b) if self.safe[r] && self.extra.chance(1, 4) => {
                let a = Rx::Assert(self.extra.range(1, 3).to_string());
                Some(match b {
                    Rx::Seq(mut v) => {
                        v.insert(0, a);
                        Rx::Seq(v)
                    }
                    Rx::Alt(alts) => Rx::Seq(vec![a, Rx::Paren(Box::new(Rx::Alt(alts)))]),
                    other => Rx::Seq(vec![a, other]),
                })
            }
            b => b,
        };
        RuleM { name: self.names[r].clone(), elided, body }
    }
    fn pratt_rule(&mut self, r: usize) -> RuleM {
        // dedicated operator tokens keep the operators out of every other first/follow set
        let mut op = |g: &mut Gen<'_>, right: bool| -> usize {
            let i = g.tokens.len();
            let name = format!("Op{}", i);
            let symbol = if g.swarm.syms { Some(format!("o{i}")) } else { None };
            g.tokens.push(TokM { name, symbol, skipped: false, right });
            i
        };
        let me = Rx::Rule(r);
        let mut branches = vec![];
        let n_infix = self.rng.range(1, 3);
        for _ in 0..n_infix {
            let right = self.rng.chance(1, 4);
            let ops: Vec<usize> = (0..self.rng.range(1, 2)).map(|_| op(self, right)).collect();
            let oprx = if ops.len() == 1 { self.tok_rx(ops[0]) } else { Rx::Paren(Box::new(Rx::Alt(ops.iter().map(|o| Rx::Tok(*o)).collect()))) };
            let mut v = vec![me.clone(), oprx, me.clone()];
            if self.swarm.node_ops && self.rng.chance(1, 3) {
                v.push(Rx::Rename("bin".into()));
            }
            branches.push(Rx::Seq(v));
        }
        if self.rng.chance(1, 2) {
            let o = op(self, false);
            let mut v = vec![self.tok_rx(o), me.clone()];
            if self.swarm.node_ops && self.rng.chance(1, 3) {
                v.push(Rx::Rename("pre".into()));
            }
            let at = self.rng.below(branches.len() + 1);
            branches.insert(at, Rx::Seq(v));
        }
        if self.rng.chance(1, 3) {
            let o = op(self, false);
            let mut v = vec![me.clone(), self.tok_rx(o)];
            if self.swarm.node_ops && self.rng.chance(1, 3) {
                v.push(Rx::Rename("post".into()));
            }
            let at = self.rng.below(branches.len() + 1);
            branches.insert(at, Rx::Seq(v));
        }
        // atoms
        let a = op(self, false);
        branches.push(self.tok_rx(a));
        if self.swarm.preds && self.rng.chance(1, 2) {
            // a predicate-guarded primary, listed before or after the left-recursive branches
            let g = op(self, false);
            let n = self.rng.range(1, 3).to_string();
            let b = Rx::Seq(vec![Rx::Pred(n), self.tok_rx(g)]);
            if self.rng.chance(1, 2) {
                branches.insert(0, b);
            } else {
                branches.push(b);
            }
        }
        if self.rng.chance(1, 2) {
            let (l, rr) = (op(self, false), op(self, false));
            branches.push(Rx::Seq(vec![self.tok_rx(l), me.clone(), self.tok_rx(rr)]));
        }
        if self.rng.chance(1, 3) {
            if let Some(c) = self.callee(Ctx { rule: r, is_start: false, region: self.safe[r], depth: 0 }) {
                if !self.pratt[c] {
                    let t = op(self, false);
                    branches.push(Rx::Seq(vec![self.tok_rx(t), Rx::Rule(c)]));
                }
            }
        }
        RuleM { name: self.names[r].clone(), elided: false, body: Some(Rx::Alt(branches)) }
    }
}

pub fn random_grammar(rng: &mut Rng) -> GModel {
    let nplain = rng.range(3, 9);
    let mut tokens = vec![];
    let syms = rng.chance(1, 2);
    for i in 0..nplain {
        let name = format!("{}", (b'A' + i as u8) as char);
        let symbol = if syms && rng.chance(2, 3) { Some(format!("{}", (b'a' + i as u8) as char)) } else { None };
        tokens.push(TokM { name, symbol, skipped: false, right: false });
    }
    let plain: Vec<usize> = (0..nplain).collect();
    if rng.chance(3, 4) {
        tokens.push(TokM { name: "Ws".into(), symbol: None, skipped: true, right: false });
        if rng.chance(1, 2) {
            tokens.push(TokM { name: "Cm".into(), symbol: None, skipped: true, right: false });
        }
    }
    let nrules = rng.range(1, 7);
    let names: Vec<String> = (0..nrules).map(|i| if i == 0 { "s".to_string() } else { format!("r{i}") }).collect();
    let swarm = Swarm {
        preds: rng.chance(1, 2),
        actions: rng.chance(1, 2),
        asserts: rng.chance(1, 2),
        choices: rng.chance(2, 3),
        node_ops: rng.chance(2, 3),
        returns: rng.chance(1, 3),
        syms,
    };
    let safe: Vec<bool> = (0..nrules).map(|i| i > 0 && rng.chance(1, 2)).collect();
    let pratt: Vec<bool> = (0..nrules).map(|i| i > 0 && rng.chance(1, 6)).collect();
    let extra = rng.child("generator side stream", 0);
    let mut g = Gen { rng, tokens, plain, nrules, safe, pratt, names, starters: vec![], choice_no: 0, recursive_ok: false, marker_no: 0, node_names: 0, swarm, extra };
    let mut rules: Vec<Option<RuleM>> = vec![None; nrules];
    for r in (0..nrules).rev() {
        rules[r] = Some(if g.pratt[r] { g.pratt_rule(r) } else { g.normal_rule(r, r == 0) });
    }
    let rules: Vec<RuleM> = rules.into_iter().map(|r| r.unwrap()).collect();
    // parts: only rules reachable from the start rule and not used inside an ordered-choice attempt
    // (lelwel accepts the other cases but emits code that does not compile: avoided, see DESIGN §7)
    let mut reach = vec![false; nrules];
    reach[0] = true;
    fn refs(r: &Rx, out: &mut Vec<usize>) {
        match r {
            Rx::Rule(i) => out.push(*i),
            Rx::Seq(v) | Rx::Alt(v) | Rx::Choice(v) => v.iter().for_each(|x| refs(x, out)),
            Rx::Opt(x) | Rx::Star(x) | Rx::Plus(x) | Rx::Paren(x) => refs(x, out),
            _ => {}
        }
    }
    let mut changed = true;
    let mut in_attempt = vec![false; nrules];
    while changed {
        changed = false;
        for i in 0..nrules {
            if !reach[i] {
                continue;
            }
            let mut out = vec![];
            if let Some(b) = &rules[i].body {
                refs(b, &mut out);
            }
            for j in out {
                if !reach[j] {
                    reach[j] = true;
                    changed = true;
                }
            }
        }
    }
    // conservative: any rule generated in region mode may be called from an attempt
    for i in 0..nrules {
        in_attempt[i] = g.safe[i];
    }
    let mut parts = vec![];
    for r in 1..nrules {
        if reach[r] && !in_attempt[r] && g.rng.chance(1, 4) {
            parts.push(r);
        }
    }
    let shuffle_decls = g.rng.chance(1, 3);
    let mut m = GModel { tokens: g.tokens, rules, start: 0, parts };
    if shuffle_decls && nrules > 1 {
        // the rules are generated caller-before-callee; declare them in a seeded other order (incl. bottom-up)
        let mut perm: Vec<usize> = (0..nrules).collect();
        if g.rng.chance(1, 2) {
            perm.reverse();
        } else {
            g.rng.shuffle(&mut perm);
        }
        m = permute_rules(&m, &perm);
    }
    m
}

/// `perm[new_index] = old_index`
pub fn permute_rules(m: &GModel, perm: &[usize]) -> GModel {
    let mut new_of_old = vec![0usize; perm.len()];
    for (n, o) in perm.iter().enumerate() {
        new_of_old[*o] = n;
    }
    fn remap(r: &Rx, map: &[usize]) -> Rx {
        match r {
            Rx::Rule(i) => Rx::Rule(map[*i]),
            Rx::Seq(v) => Rx::Seq(v.iter().map(|x| remap(x, map)).collect()),
            Rx::Alt(v) => Rx::Alt(v.iter().map(|x| remap(x, map)).collect()),
            Rx::Choice(v) => Rx::Choice(v.iter().map(|x| remap(x, map)).collect()),
            Rx::Opt(x) => Rx::Opt(Box::new(remap(x, map))),
            Rx::Star(x) => Rx::Star(Box::new(remap(x, map))),
            Rx::Plus(x) => Rx::Plus(Box::new(remap(x, map))),
            Rx::Paren(x) => Rx::Paren(Box::new(remap(x, map))),
            other => other.clone(),
        }
    }
    let rules = perm.iter().map(|o| { let r = &m.rules[*o]; RuleM { name: r.name.clone(), elided: r.elided, body: r.body.as_ref().map(|b| remap(b, &new_of_old)) } }).collect();
    let mut parts: Vec<usize> = m.parts.iter().map(|p| new_of_old[*p]).collect();
    parts.sort();
    GModel { tokens: m.tokens.clone(), rules, start: new_of_old[m.start], parts }
}

