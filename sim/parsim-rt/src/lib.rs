pub mod driver;
pub mod model;
pub mod rt;
