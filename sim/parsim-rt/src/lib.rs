pub mod driver;
pub mod gen;
pub mod model;
pub mod rt;
