//! cstsim — C02 (histories half): well-nested histories of tree-builder operations, issued by a
//! seeded abstract parser machine exactly in the patterns the generator emits, executed on the real
//! `CstData` (as emitted by /repo's lelwel for a trivial grammar) and on a pointer-based reference
//! tree, compared after every operation (DESIGN.md §4.2, §5/C02).
//!
//!   cstsim run C02 | replay <file>

use serde::{Deserialize, Serialize};
use serde_json::json;
use std::collections::BTreeMap;
use std::time::Instant;
use vcore::{Rng, Tier};

mod real {
    #![allow(dead_code, unused_variables, unused_mut, clippy::all)]
    #[derive(Copy, Clone, Debug, PartialEq, Eq)]
    #[repr(u16)]
    pub enum Token {
        EOF,
        Error,
        A,
        B,
        Ws,
    }
    pub type Diagnostic = String;
    include!(concat!(env!("OUT_DIR"), "/generated.rs"));
    impl<'a> ParserCallbacks<'a> for Parser<'a> {
        type Diagnostic = String;
        type Context = ();
        fn create_tokens(_c: &mut (), _s: &'a str, _d: &mut Vec<String>) -> (Vec<Token>, Vec<Span>) {
            (vec![], vec![])
        }
        fn create_diagnostic(&self, _span: Span, message: String) -> String {
            message
        }
    }

    // the builder API, re-exported for the harness (same module => private items are visible)
    pub struct Builder {
        pub data: CstData,
        opened: Vec<Option<MarkOpened>>,
        closed: Vec<Option<MarkClosed>>,
        truncs: Vec<Option<MarkTruncation>>,
    }
    pub const KINDS: [Rule; 5] = [Rule::Error, Rule::S, Rule::A, Rule::B, Rule::C];
    pub const TOKS: [Token; 3] = [Token::A, Token::B, Token::Ws];
    #[derive(Clone, Copy, Debug, PartialEq, Eq)]
    pub enum N {
        Rule(u16, usize),
        Token(u16, usize),
    }
    fn nv(n: &Node) -> N {
        match n {
            Node::Rule(r, off) => N::Rule(KINDS.iter().position(|k| k == r).unwrap_or(99) as u16, usize::from(*off)),
            Node::Token(t, idx) => N::Token(TOKS.iter().position(|k| k == t).unwrap_or(99) as u16, usize::from(*idx)),
        }
    }
    impl Builder {
        pub fn new(spans: Vec<Span>, handles: usize) -> Builder {
            Builder { data: CstData::new(spans), opened: vec![None; handles], closed: vec![None; handles], truncs: vec![None; handles] }
        }
        pub fn open(&mut self, h: usize) {
            self.opened[h] = Some(self.data.open());
        }
        pub fn close(&mut self, h: usize, kind: usize, out: usize) -> usize {
            let m = self.data.close(self.opened[h].unwrap(), KINDS[kind]);
            self.closed[out] = Some(m);
            m.0
        }
        pub fn close_root(&mut self, h: usize, kind: usize) -> usize {
            self.data.close_root(self.opened[h].unwrap(), KINDS[kind]).0
        }
        pub fn advance(&mut self, tok: usize, skip: bool) {
            self.data.advance(TOKS[tok], skip);
        }
        pub fn mark(&mut self, out: usize) {
            self.closed[out] = Some(self.data.mark());
        }
        pub fn open_before(&mut self, mark: usize, out: usize) {
            self.opened[out] = Some(self.data.open_before(self.closed[mark].unwrap()));
        }
        pub fn mark_truncation(&mut self, out: usize) {
            self.truncs[out] = Some(self.data.mark_truncation());
        }
        pub fn truncate(&mut self, t: usize) {
            self.data.truncate(self.truncs[t].clone().unwrap());
        }
        pub fn nodes(&self) -> Vec<N> {
            self.data.nodes.iter().map(nv).collect()
        }
        pub fn token_count(&self) -> usize {
            self.data.token_count
        }
        pub fn non_skip_len(&self) -> usize {
            self.data.non_skip_len
        }
        // the public read API
        pub fn children(&self, n: usize) -> Vec<usize> {
            self.data.children(NodeRef(n)).map(|r| r.0).collect()
        }
        pub fn get(&self, n: usize) -> N {
            nv(&self.data.get(NodeRef(n)))
        }
        pub fn span(&self, n: usize) -> Span {
            self.data.span(NodeRef(n))
        }
    }
}
use real::{Builder, N};

const K_ERROR: usize = 0;
const T_WS: usize = 2;

#[derive(Serialize, Deserialize, Clone, Debug, PartialEq)]
enum Op {
    Open { h: usize },
    Close { h: usize, kind: usize, out: usize },
    CloseRoot { h: usize, kind: usize },
    Advance { tok: usize, skip: bool },
    Mark { out: usize },
    OpenBefore { mark: usize, out: usize },
    MarkTrunc { out: usize },
    Truncate { t: usize },
}

// ------------------------------------------------------------------------------------------
// reference tree: pointers, no offsets

#[derive(Clone, Debug)]
enum RNode {
    Tok { tok: usize, idx: usize, skip: bool },
    Rule { kind: usize, kids: Vec<RNode> },
}
#[derive(Clone, Debug)]
struct RFrame {
    handle: usize,
    kids: Vec<RNode>,
}
#[derive(Clone, Debug, Default)]
struct Ref {
    /// closed top-level content (only the root, once closed)
    done: Vec<RNode>,
    frames: Vec<RFrame>,
    token_count: usize,
    marks: BTreeMap<usize, (usize, usize)>,
    snaps: BTreeMap<usize, Box<Ref>>,
    last_closed: Option<RNode>,
}

fn flat_len(n: &RNode) -> usize {
    match n {
        RNode::Tok { .. } => 1,
        RNode::Rule { kids, .. } => 1 + kids.iter().map(flat_len).sum::<usize>(),
    }
}
fn flatten_node(n: &RNode, out: &mut Vec<(N, bool)>) {
    match n {
        RNode::Tok { tok, idx, skip } => out.push((N::Token(*tok as u16, *idx), *skip)),
        RNode::Rule { kind, kids } => {
            out.push((N::Rule(*kind as u16, flat_len(n) - 1), false));
            kids.iter().for_each(|k| flatten_node(k, out));
        }
    }
}
impl Ref {
    /// expected node vector: closed nodes as (kind, size of subtree), open frames as placeholders (error kind, 0)
    fn flatten(&self) -> Vec<(N, bool)> {
        let mut out = vec![];
        for n in &self.done {
            flatten_node(n, &mut out);
        }
        for f in &self.frames {
            out.push((N::Rule(K_ERROR as u16, 0), false));
            f.kids.iter().for_each(|k| flatten_node(k, &mut out));
        }
        out
    }
    fn apply(&mut self, op: &Op) -> Result<(), String> {
        match op {
            Op::Open { h } => self.frames.push(RFrame { handle: *h, kids: vec![] }),
            Op::Close { h, kind, .. } | Op::CloseRoot { h, kind } => {
                let f = self.frames.pop().ok_or("close without an open frame")?;
                if f.handle != *h {
                    return Err(format!("history not well nested: closing {h} but the innermost open frame is {}", f.handle));
                }
                let mut kids = f.kids;
                let mut trailing = vec![];
                if matches!(op, Op::Close { .. }) {
                    // trailing skipped tokens are not part of the node: they move up to the parent
                    while matches!(kids.last(), Some(RNode::Tok { skip: true, .. })) {
                        trailing.push(kids.pop().unwrap());
                    }
                    trailing.reverse();
                }
                let node = RNode::Rule { kind: *kind, kids };
                self.last_closed = Some(node.clone());
                let depth = self.frames.len();
                let at = match self.frames.last_mut() {
                    Some(p) => {
                        p.kids.push(node);
                        p.kids.extend(trailing);
                        p.kids.len()
                    }
                    None => {
                        self.done.push(node);
                        self.done.extend(trailing);
                        self.done.len()
                    }
                };
                // close returns a mark at the closed node (Pratt: `lhs = closed`)
                if let Op::Close { out, .. } = op {
                    let trailing_n = match self.frames.last() {
                        Some(p) => p.kids.iter().rev().take_while(|k| matches!(k, RNode::Tok { skip: true, .. })).count(),
                        None => 0,
                    };
                    let _ = trailing_n;
                    // position of the node itself: it was pushed before its trailing trivia
                    let node_pos = match self.frames.last() {
                        Some(p) => p.kids.iter().rposition(|k| matches!(k, RNode::Rule { .. })).unwrap_or(0),
                        None => at - 1,
                    };
                    self.marks.insert(*out, (depth, node_pos));
                }
            }
            Op::Advance { tok, skip } => {
                let idx = self.token_count;
                self.token_count += 1;
                let n = RNode::Tok { tok: *tok, idx, skip: *skip };
                match self.frames.last_mut() {
                    Some(f) => f.kids.push(n),
                    None => self.done.push(n),
                }
            }
            Op::Mark { out } => {
                let d = self.frames.len();
                let l = self.frames.last().map_or(self.done.len(), |f| f.kids.len());
                self.marks.insert(*out, (d, l));
            }
            Op::OpenBefore { mark, out } => {
                let (d, l) = *self.marks.get(mark).ok_or("open_before of an unknown mark")?;
                if d != self.frames.len() {
                    return Err("open_before of a mark that belongs to another frame".into());
                }
                let f = self.frames.last_mut().ok_or("open_before outside any frame")?;
                if l > f.kids.len() {
                    return Err("open_before of a mark beyond the frame".into());
                }
                let adopted = f.kids.split_off(l);
                self.frames.push(RFrame { handle: *out, kids: adopted });
            }
            Op::MarkTrunc { out } => {
                let mut c = self.clone();
                c.snaps.clear();
                self.snaps.insert(*out, Box::new(c));
            }
            Op::Truncate { t } => {
                let s = self.snaps.get(t).ok_or("truncate of an unknown mark")?.clone();
                let snaps = std::mem::take(&mut self.snaps);
                let marks = std::mem::take(&mut self.marks);
                *self = *s;
                self.snaps = snaps;
                // marks taken before the snapshot stay valid; later ones are dead (never used again)
                self.marks = marks;
            }
        }
        Ok(())
    }
}

// ------------------------------------------------------------------------------------------
// the abstract parser machine: emits exactly the operation patterns of generated rule code

struct Machine<'r> {
    rng: &'r mut Rng,
    ops: Vec<Op>,
    next_h: usize,
    budget: usize,
    in_attempt: bool,
    /// swarm knobs
    p_skip: usize,
    p_abort: usize,
    allow_attempts: bool,
    allow_pratt: bool,
    allow_markers: bool,
    allow_errors: bool,
    stats: MStats,
}
#[derive(Default, Clone)]
struct MStats {
    wrappers: usize,
    wrappers_after_trivia: usize,
    empty_nodes: usize,
    error_nodes: usize,
    truncations: usize,
    pratt_loops: usize,
    elided: usize,
}
struct Abort;

impl Machine<'_> {
    fn h(&mut self) -> usize {
        self.next_h += 1;
        self.next_h - 1
    }
    fn spend(&mut self) -> bool {
        if self.budget == 0 {
            return false;
        }
        self.budget -= 1;
        true
    }
    fn token(&mut self) {
        // Parser::advance: one non-skipped token followed by the skipped tokens after it
        if !self.spend() {
            return;
        }
        let tok = self.rng.below(2);
        self.ops.push(Op::Advance { tok, skip: false });
        while self.rng.below(100) < self.p_skip && self.spend() {
            self.ops.push(Op::Advance { tok: T_WS, skip: true });
        }
    }
    fn maybe_abort(&mut self) -> Result<(), Abort> {
        if self.in_attempt && self.rng.below(100) < self.p_abort {
            return Err(Abort);
        }
        Ok(())
    }
    fn kind(&mut self) -> usize {
        1 + self.rng.below(4)
    }
    fn error_episode(&mut self) {
        // advance_with_error: open an error node, swallow tokens, closed before any other builder operation
        let h = self.h();
        let out = self.h();
        self.ops.push(Op::Open { h });
        for _ in 0..self.rng.range(1, 3) {
            self.token();
        }
        self.ops.push(Op::Close { h, kind: K_ERROR, out });
        self.stats.error_nodes += 1;
    }
    fn items(&mut self, depth: usize) -> Result<(), Abort> {
        let n = self.rng.below(4);
        // node marker / creation of the current frame: `<k ... k>name`
        let marker = if self.allow_markers && self.rng.chance(1, 4) {
            let m = self.h();
            self.ops.push(Op::Mark { out: m });
            Some(m)
        } else {
            None
        };
        let trailing_trivia_before = matches!(self.ops.iter().rev().find(|o| !matches!(o, Op::Mark { .. })), Some(Op::Advance { skip: true, .. }));
        for _ in 0..n {
            if self.budget == 0 {
                break;
            }
            self.maybe_abort()?;
            match self.rng.below(10) {
                0..=4 => self.token(),
                5..=7 if depth < 5 => self.rule(depth + 1)?,
                8 if self.allow_errors && !self.in_attempt => self.error_episode(),
                9 if self.allow_attempts && !self.in_attempt && depth < 5 => self.attempt(depth + 1),
                _ => self.token(),
            }
        }
        if let Some(m) = marker {
            let o = self.h();
            let out = self.h();
            let kind = self.kind();
            self.ops.push(Op::OpenBefore { mark: m, out: o });
            self.ops.push(Op::Close { h: o, kind, out });
            self.stats.wrappers += 1;
            if trailing_trivia_before {
                self.stats.wrappers_after_trivia += 1;
            }
            if n == 0 {
                self.stats.empty_nodes += 1;
            }
        }
        Ok(())
    }
    fn rule(&mut self, depth: usize) -> Result<(), Abort> {
        if !self.spend() {
            return Ok(());
        }
        match self.rng.below(10) {
            // plain rule: open ... close
            0..=4 => {
                let h = self.h();
                let out = self.h();
                self.ops.push(Op::Open { h });
                self.items(depth)?;
                let kind = self.kind();
                self.ops.push(Op::Close { h, kind, out });
            }
            // conditionally elided rule / whole-rule creation: start = mark(); ...; [open_before(start); close]
            5..=6 => {
                let start = self.h();
                self.ops.push(Op::Mark { out: start });
                let before = self.ops.len();
                self.items(depth)?;
                if self.rng.chance(2, 3) {
                    let o = self.h();
                    let out = self.h();
                    let kind = self.kind();
                    self.ops.push(Op::OpenBefore { mark: start, out: o });
                    self.ops.push(Op::Close { h: o, kind, out });
                    self.stats.wrappers += 1;
                    if self.ops.len() == before + 2 {
                        self.stats.empty_nodes += 1;
                    }
                } else {
                    self.stats.elided += 1;
                }
            }
            // Pratt rule: lhs = mark(); operand; loop { open_before(lhs); op; [rhs]; lhs = close }
            7..=8 if self.allow_pratt => {
                let mut lhs = self.h();
                self.ops.push(Op::Mark { out: lhs });
                // operand: a token wrapped in a node, or a prefix operator node
                let h = self.h();
                let out = self.h();
                self.ops.push(Op::Open { h });
                self.token();
                let kind = self.kind();
                self.ops.push(Op::Close { h, kind, out });
                for _ in 0..self.rng.below(3) {
                    if self.budget < 4 {
                        break;
                    }
                    self.maybe_abort()?;
                    let o = self.h();
                    self.ops.push(Op::OpenBefore { mark: lhs, out: o });
                    self.token();
                    if self.rng.chance(2, 3) && depth < 5 {
                        // rhs = mark(); rec(...)
                        let rhs = self.h();
                        self.ops.push(Op::Mark { out: rhs });
                        let h2 = self.h();
                        let out2 = self.h();
                        self.ops.push(Op::Open { h: h2 });
                        self.token();
                        let k2 = self.kind();
                        self.ops.push(Op::Close { h: h2, kind: k2, out: out2 });
                    }
                    let closed = self.h();
                    let kind = self.kind();
                    self.ops.push(Op::Close { h: o, kind, out: closed });
                    lhs = closed;
                    self.stats.wrappers += 1;
                    self.stats.pratt_loops += 1;
                }
            }
            // an empty rule
            _ => {
                let h = self.h();
                let out = self.h();
                self.ops.push(Op::Open { h });
                let kind = self.kind();
                self.ops.push(Op::Close { h, kind, out });
                self.stats.empty_nodes += 1;
            }
        }
        Ok(())
    }
    fn attempt(&mut self, depth: usize) {
        // ordered choice: state = get_state(); alternative...; on failure set_state(state)
        let t = self.h();
        self.ops.push(Op::MarkTrunc { out: t });
        for _alt in 0..self.rng.range(1, 2) {
            self.in_attempt = true;
            let r = self.items(depth);
            self.in_attempt = false;
            match r {
                Ok(()) if self.rng.chance(1, 2) => return, // the alternative succeeded
                _ => {
                    self.ops.push(Op::Truncate { t });
                    self.stats.truncations += 1;
                }
            }
        }
        // last alternative: not undoable
        let _ = self.items(depth);
    }
    fn history(&mut self) {
        // parse_rule: m = open(); init_skip; rule; [trailing garbage error node]; close_root
        let root = self.h();
        self.ops.push(Op::Open { h: root });
        while self.rng.below(100) < self.p_skip && self.spend() {
            self.ops.push(Op::Advance { tok: T_WS, skip: true });
        }
        let _ = self.items(0);
        let _ = self.items(0);
        if self.allow_errors && self.rng.chance(1, 5) {
            let h = self.h();
            let out = self.h();
            self.ops.push(Op::Open { h });
            // the garbage starts at the current (non-skipped) token and runs to the end of the input
            let first = self.rng.below(2);
            self.ops.push(Op::Advance { tok: first, skip: false });
            for _ in 0..self.rng.below(3) {
                let tok = self.rng.below(3);
                self.ops.push(Op::Advance { tok, skip: tok == T_WS });
            }
            self.ops.push(Op::Close { h, kind: K_ERROR, out });
        }
        self.ops.push(Op::CloseRoot { h: root, kind: 1 });
    }
}

fn generate(rng: &mut Rng, max_ops: usize) -> (Vec<Op>, usize, MStats) {
    let p_skip = *rng.pick(&[0usize, 15, 40, 70]);
    let p_abort = *rng.pick(&[5usize, 15, 35]);
    let (allow_attempts, allow_pratt, allow_markers, allow_errors) = (rng.chance(2, 3), rng.chance(2, 3), rng.chance(3, 4), rng.chance(2, 3));
    let budget = rng.range(4, max_ops);
    let mut m = Machine { rng, ops: vec![], next_h: 0, budget, in_attempt: false, p_skip, p_abort, allow_attempts, allow_pratt, allow_markers, allow_errors, stats: MStats::default() };
    m.history();
    let stats = m.stats.clone();
    (m.ops, m.next_h, stats)
}

// ------------------------------------------------------------------------------------------
// execution with the oracle after every operation

fn spans_for(n: usize) -> Vec<std::ops::Range<usize>> {
    let mut v = vec![];
    let mut at = 0;
    for i in 0..n {
        let w = 1 + (i * 5 + 1) % 3;
        v.push(at..at + w);
        at += w;
    }
    v
}

/// compare the real subtree at `idx` (through children/get/span) with the reference node
fn cmp_subtree(b: &Builder, spans: &[std::ops::Range<usize>], idx: usize, r: &RNode, prev_tok_end: &mut usize) -> Result<(), String> {
    match r {
        RNode::Tok { tok, idx: ti, .. } => {
            if b.get(idx) != N::Token(*tok as u16, *ti) {
                return Err(format!("node {idx}: expected token ({tok},{ti}), got {:?}", b.get(idx)));
            }
            if b.span(idx) != spans[*ti] {
                return Err(format!("node {idx}: token span {:?}, expected {:?}", b.span(idx), spans[*ti]));
            }
            *prev_tok_end = spans[*ti].end;
            Ok(())
        }
        RNode::Rule { kind, kids } => {
            match b.get(idx) {
                N::Rule(k, _) if k as usize == *kind => {}
                other => return Err(format!("node {idx}: expected rule kind {kind}, got {other:?}")),
            }
            let ch = b.children(idx);
            if ch.len() != kids.len() {
                return Err(format!("node {idx}: children() yields {} children {ch:?}, the reference node has {}", ch.len(), kids.len()));
            }
            // rule span: first to last token of the subtree, or the empty-node rule
            fn first_last(n: &RNode, first: &mut Option<usize>, last: &mut Option<usize>) {
                match n {
                    RNode::Tok { idx, .. } => {
                        if first.is_none() {
                            *first = Some(*idx);
                        }
                        *last = Some(*idx);
                    }
                    RNode::Rule { kids, .. } => kids.iter().for_each(|k| first_last(k, first, last)),
                }
            }
            let (mut f, mut l) = (None, None);
            first_last(r, &mut f, &mut l);
            let exp = match (f, l) {
                (Some(f), Some(l)) => spans[f].start..spans[l].end,
                _ => *prev_tok_end..*prev_tok_end,
            };
            if b.span(idx) != exp {
                return Err(format!("node {idx}: rule span {:?}, expected {:?}", b.span(idx), exp));
            }
            for (c, k) in ch.iter().zip(kids.iter()) {
                cmp_subtree(b, spans, *c, k, prev_tok_end)?;
            }
            Ok(())
        }
    }
}

struct ExecResult {
    viol: Option<(String, String, usize)>,
    closes_compared: usize,
}

fn execute(ops: &[Op], handles: usize) -> ExecResult {
    let ntok = ops.iter().filter(|o| matches!(o, Op::Advance { .. })).count();
    let spans = spans_for(ntok + 1);
    let mut b = Builder::new(spans.clone(), handles.max(1));
    let mut r = Ref::default();
    let mut closes = 0;
    for (i, op) in ops.iter().enumerate() {
        if let Err(e) = r.apply(op) {
            return ExecResult { viol: Some(("harness.history_invalid".into(), e, i)), closes_compared: closes };
        }
        let res = std::panic::catch_unwind(std::panic::AssertUnwindSafe(|| {
            let mut closed_at = None;
            match op {
                Op::Open { h } => b.open(*h),
                Op::Close { h, kind, out } => closed_at = Some(b.close(*h, *kind, *out)),
                Op::CloseRoot { h, kind } => closed_at = Some(b.close_root(*h, *kind)),
                Op::Advance { tok, skip } => b.advance(*tok, *skip),
                Op::Mark { out } => b.mark(*out),
                Op::OpenBefore { mark, out } => b.open_before(*mark, *out),
                Op::MarkTrunc { out } => b.mark_truncation(*out),
                Op::Truncate { t } => b.truncate(*t),
            }
            closed_at
        }));
        let closed_at = match res {
            Ok(c) => c,
            Err(_) => {
                let (loc, msg) = vcore::take_last_panic().unwrap_or_default();
                return ExecResult { viol: Some(("C02.builder_panicked".into(), format!("{op:?} panicked: {}", vcore::panic_site(loc.rsplit('/').next().unwrap_or(""), &msg)), i)), closes_compared: closes };
            }
        };
        // the whole node vector equals the flattened reference (extents included)
        let exp = r.flatten();
        let got = b.nodes();
        let expn: Vec<N> = exp.iter().map(|(n, _)| *n).collect();
        if got != expn {
            let at = got.iter().zip(expn.iter()).position(|(a, b)| a != b).unwrap_or(got.len().min(expn.len()));
            let class = match (got.get(at), expn.get(at)) {
                (Some(N::Rule(k1, o1)), Some(N::Rule(k2, o2))) if k1 == k2 && o1 != o2 => "C02.extent_differs_from_reference",
                (Some(N::Rule(..)), Some(N::Rule(..))) => "C02.node_kind_differs_from_reference",
                _ if got.len() != expn.len() => "C02.node_count_differs_from_reference",
                _ => "C02.node_order_differs_from_reference",
            };
            return ExecResult { viol: Some((class.into(), format!("after op #{i} {op:?}: node {at} is {:?}, the reference tree gives {:?} ({} vs {} nodes)", got.get(at), expn.get(at), got.len(), expn.len()), i)), closes_compared: closes };
        }
        if b.token_count() != r.token_count {
            return ExecResult { viol: Some(("C02.token_counter_differs".into(), format!("after op #{i} {op:?}: token_count {} expected {}", b.token_count(), r.token_count), i)), closes_compared: closes };
        }
        // the "content end" the builder keeps (decides where the next close ends) equals the index after the last
        // item that is not a skipped token
        // (checked after a close only: between an insertion after trailing trivia and its close the builder's
        // counter is deliberately behind, which has no observable effect)
        let exp_nsl = exp.iter().rposition(|(_, skip)| !*skip).map_or(0, |p| p + 1);
        if matches!(op, Op::Close { .. }) && b.non_skip_len() != exp_nsl {
            return ExecResult { viol: Some(("C02.content_end_differs".into(), format!("after op #{i} {op:?}: non_skip_len {} but the last non-skipped item of the reference ends at {}", b.non_skip_len(), exp_nsl), i)), closes_compared: closes };
        }
        // after a close: the closed node through the public read API equals the reference node
        if let (Some(at), Some(node)) = (closed_at, r.last_closed.clone()) {
            if matches!(op, Op::Close { .. } | Op::CloseRoot { .. }) {
                closes += 1;
                // end of the last token before the node in document order
                let mut prev_end = 0;
                for n in &got[..at] {
                    if let N::Token(_, ti) = n {
                        prev_end = spans[*ti].end;
                    }
                }
                let res = std::panic::catch_unwind(std::panic::AssertUnwindSafe(|| cmp_subtree(&b, &spans, at, &node, &mut prev_end)));
                match res {
                    Ok(Ok(())) => {}
                    Ok(Err(e)) => return ExecResult { viol: Some(("C02.read_api_differs_from_reference".into(), format!("after op #{i} {op:?}: {e}"), i)), closes_compared: closes },
                    Err(_) => {
                        let (loc, msg) = vcore::take_last_panic().unwrap_or_default();
                        return ExecResult { viol: Some(("C02.read_api_panicked".into(), format!("after op #{i} {op:?}: {}", vcore::panic_site(loc.rsplit('/').next().unwrap_or(""), &msg)), i)), closes_compared: closes };
                    }
                }
                // shape: no rule node other than the root starts or ends with a skipped token
                if !matches!(op, Op::CloseRoot { .. }) {
                    let ch = b.children(at);
                    for c in [ch.first(), ch.last()].into_iter().flatten() {
                        if let N::Token(t, _) = b.get(*c) {
                            if t as usize == T_WS {
                                return ExecResult { viol: Some(("C02.rule_node_starts_or_ends_with_skipped_token".into(), format!("after op #{i} {op:?}: node {at}"), i)), closes_compared: closes };
                            }
                        }
                    }
                }
            }
        }
    }
    ExecResult { viol: None, closes_compared: closes }
}

fn minimise(ops: &[Op], handles: usize, class: &str) -> Vec<Op> {
    let mut best = ops.to_vec();
    let shows = |o: &[Op]| execute(o, handles).viol.is_some_and(|(c, _, _)| c == class);
    // cut the tail after the failing op
    if let Some((_, _, at)) = execute(&best, handles).viol {
        best.truncate(at + 1);
    }
    // drop tokens
    let mut i = best.len();
    while i > 0 {
        i -= 1;
        if matches!(best[i], Op::Advance { .. }) {
            let mut c = best.clone();
            c.remove(i);
            if shows(&c) {
                best = c;
            }
        }
    }
    // drop matched open/close pairs and mark/open_before/close triples where that keeps the history valid
    let mut changed = true;
    while changed {
        changed = false;
        for i in 0..best.len() {
            let cand: Option<Vec<usize>> = match &best[i] {
                Op::Open { h } => best.iter().position(|o| matches!(o, Op::Close { h: h2, .. } if h2 == h)).map(|j| vec![i, j]),
                Op::OpenBefore { out, .. } => best.iter().position(|o| matches!(o, Op::Close { h: h2, .. } if h2 == out)).map(|j| vec![i, j]),
                Op::MarkTrunc { out } => {
                    let js: Vec<usize> = best.iter().enumerate().filter(|(_, o)| matches!(o, Op::Truncate { t } if t == out)).map(|(j, _)| j).collect();
                    Some(std::iter::once(i).chain(js).collect())
                }
                _ => None,
            };
            if let Some(idx) = cand {
                let c: Vec<Op> = best.iter().enumerate().filter(|(k, _)| !idx.contains(k)).map(|(_, o)| o.clone()).collect();
                if shows(&c) {
                    best = c;
                    changed = true;
                    break;
                }
            }
        }
    }
    best
}

fn run(tier: Tier, seed: u64) -> i32 {
    let t0 = Instant::now();
    vcore::quiet_panics();
    let n_hist = tier.pick(3_000_000usize, 60_000_000usize);
    let nw = vcore::workers();
    let root = Rng::new(seed);
    let results = std::sync::Mutex::new(vec![]);
    std::thread::scope(|sc| {
        for w in 0..nw {
            let root = &root;
            let results = &results;
            sc.spawn(move || {
                let mut found: BTreeMap<String, (String, Vec<Op>, usize, usize)> = BTreeMap::new();
                let mut distinct = std::collections::HashSet::new();
                let mut ops_total = 0usize;
                let mut closes = 0usize;
                let mut st = MStats::default();
                let mut hist = 0usize;
                let mut samples = vec![];
                let mut i = w;
                while i < n_hist {
                    let mut rng = root.child("history", i as u64);
                    let (ops, handles, ms) = generate(&mut rng, 60);
                    let r = execute(&ops, handles);
                    hist += 1;
                    ops_total += ops.len();
                    closes += r.closes_compared;
                    st.wrappers += ms.wrappers;
                    st.wrappers_after_trivia += ms.wrappers_after_trivia;
                    st.empty_nodes += ms.empty_nodes;
                    st.error_nodes += ms.error_nodes;
                    st.truncations += ms.truncations;
                    st.pratt_loops += ms.pratt_loops;
                    st.elided += ms.elided;
                    // distinct by the shape of the history (operation kinds and handle structure)
                    distinct.insert(vcore::hash_str(&format!("{ops:?}")));
                    if i < 64 && ops.len() > 12 {
                        samples.push(json!({"history_index": i, "ops": ops.iter().map(|o| format!("{o:?}")).collect::<Vec<_>>()}));
                    }
                    if let Some((class, detail, _)) = r.viol {
                        found.entry(class).or_insert((detail, ops, handles, i));
                    }
                    i += nw;
                }
                results.lock().unwrap().push((w, found, distinct, ops_total, closes, st, hist, samples));
            });
        }
    });
    let mut results = results.into_inner().unwrap();
    results.sort_by_key(|r| r.0);
    let mut verdicts = vcore::Verdicts::new("C02");
    let mut found: BTreeMap<String, (String, Vec<Op>, usize, usize)> = BTreeMap::new();
    let mut distinct = std::collections::HashSet::new();
    let (mut ops_total, mut closes, mut hist) = (0usize, 0usize, 0usize);
    let mut st = MStats::default();
    let mut samples = vec![];
    for (_, f, d, o, c, s, h, smp) in results {
        for (k, v) in f {
            match found.get(&k) {
                Some(old) if old.3 <= v.3 => {}
                _ => {
                    found.insert(k, v);
                }
            }
        }
        distinct.extend(d);
        ops_total += o;
        closes += c;
        hist += h;
        st.wrappers += s.wrappers;
        st.wrappers_after_trivia += s.wrappers_after_trivia;
        st.empty_nodes += s.empty_nodes;
        st.error_nodes += s.error_nodes;
        st.truncations += s.truncations;
        st.pratt_loops += s.pratt_loops;
        st.elided += s.elided;
        samples.extend(smp);
    }
    samples.sort_by_key(|x| x["history_index"].as_u64().unwrap_or(u64::MAX));
    samples.truncate(2);
    for (class, (detail, ops, handles, idx)) in &found {
        if class.starts_with("harness.") {
            vcore::harness_error(&format!("the abstract parser machine produced an invalid history (#{idx}): {detail}"));
        }
        let min = minimise(ops, *handles, class);
        let again = execute(&min, *handles);
        let detail2 = again.viol.as_ref().map(|v| v.1.clone()).unwrap_or(detail.clone());
        verdicts.violation(class, &json!({"engine": "cstsim", "seed": seed, "detail": detail2, "history_index": idx, "handles": handles, "ops": min, "original_ops": ops.len()}));
    }
    for (name, v) in [("wrapper_inserted_before_a_mark", st.wrappers), ("wrapper_inserted_at_a_mark_taken_after_trailing_trivia", st.wrappers_after_trivia), ("empty_nodes", st.empty_nodes), ("error_node_episodes", st.error_nodes), ("truncations", st.truncations), ("pratt_loop_iterations", st.pratt_loops)] {
        if v == 0 {
            println!("WARNING: reach probe '{name}' is at 0");
        }
    }
    let code = verdicts.finish();
    let wall = t0.elapsed().as_secs_f64();
    // the farm half of C02 writes its summary next to the evidence; fold it in if present and fresh
    let farm: serde_json::Value = std::fs::read_to_string("/verif/evidence/.C02.farm.json").ok().and_then(|t| serde_json::from_str(&t).ok()).unwrap_or(json!(null));
    vcore::Evidence {
        property_id: "C02".into(),
        tier,
        seed,
        level: "exploration",
        coverage: json!({
            "evaluations": hist,
            "distinct_nontrivial": distinct.len(),
            "run_digest": format!("{:016x}", distinct.iter().fold(0u64, |a, h| a ^ vcore::mix(*h))),
            "rule": "evaluation = one seeded well-nested history (<= 60 operations) of tree-builder operations issued by an abstract parser machine in exactly the patterns generated rule code uses (open..close, deferred/elided nodes, marker/creation wrappers, Pratt loops, token+trailing trivia, error-node episodes, trailing garbage, one active mark_truncation..truncate at arbitrary points), executed on the real CstData emitted by /repo's lelwel and on a pointer-based reference tree. After every operation: node vector = flattened reference (kinds, extents, order), token counter, content end; after every close: the closed node through children()/get()/span() = reference node (kinds, token spans, rule spans incl. the empty-node rule), no skipped first/last child. Non-trivial = every history closes at least the root; distinct = different operation list.",
            "samples": samples,
            "operations_executed": ops_total,
            "closes_compared_through_read_api": closes,
            "reach_probes": {
                "wrapper_inserted_before_a_mark": st.wrappers,
                "wrapper_inserted_at_a_mark_taken_after_trailing_trivia": st.wrappers_after_trivia,
                "empty_nodes": st.empty_nodes,
                "error_node_episodes": st.error_nodes,
                "rollbacks_(truncate)": st.truncations,
                "pratt_loop_iterations": st.pratt_loops,
                "deferred_nodes_elided": st.elided,
            },
            "farm_half_(real_parses,_parsim)": farm,
            "histories_per_hour": (hist as f64 / wall * 3600.0) as u64,
            "simulated_time_s": 0,
            "simulated_time_note": "the tree builder has no clock",
            "real_vs_stub": {
                "real": ["CstData::{open, close, close_root, advance, mark, open_before, mark_truncation, truncate} and the read API children/get/span exactly as emitted by /repo's skeleton (generated at build time from a trivial grammar)"],
                "simulated": ["the caller: an abstract parser machine instead of generated rule code", "the reference: a pointer tree without offsets"],
            },
        }),
        assumptions: vec![
            "histories are well nested by construction and follow the emitted patterns (a mark is only used for insertion while its frame is open; token advances are followed by their trailing trivia atomically; at most one active truncation mark)".into(),
            "the reference semantics: close = wrap the frame's children minus trailing skipped tokens, which move up to the parent; open_before(mark) = wrap the children from the mark to the end; truncate = restore the snapshot".into(),
        ],
        wall_s: wall,
        violations: verdicts.count_new(),
        extra: json!({"engine": "cstsim"}),
    }
    .write();
    println!("cstsim: tier={} seed={seed} histories={hist} ops={ops_total} closes_compared={closes} distinct={} new_violations={} known={} wall={wall:.1}s", tier.name(), distinct.len(), verdicts.count_new(), verdicts.known_hits.len());
    code
}

fn replay(file: &str) -> i32 {
    vcore::quiet_panics();
    let text = std::fs::read_to_string(file).unwrap_or_else(|e| vcore::harness_error(&format!("cannot read {file}: {e}")));
    let v: serde_json::Value = serde_json::from_str(&text).unwrap_or_else(|e| vcore::harness_error(&format!("replay file does not parse: {e}")));
    let ops: Vec<Op> = serde_json::from_value(v["ops"].clone()).unwrap_or_else(|e| vcore::harness_error(&format!("no ops in replay file: {e}")));
    let handles = v["handles"].as_u64().unwrap_or(64) as usize;
    let sig = v["signature"].as_str().unwrap_or("").to_string();
    let r = execute(&ops, handles);
    for (i, o) in ops.iter().enumerate() {
        println!("  #{i} {o:?}");
    }
    match r.viol {
        Some((c, d, _)) if c == sig => {
            println!("  {c}: {d}");
            println!("VIOLATION property=C02 replay={file}");
            1
        }
        other => {
            println!("not reproduced: {sig} (now: {:?})", other.map(|x| x.0));
            0
        }
    }
}

fn main() {
    let args: Vec<String> = std::env::args().collect();
    let code = match args.get(1).map(|s| s.as_str()) {
        Some("run") => run(vcore::tier_from_env(), vcore::seed_from_env()),
        Some("replay") => replay(&args[2]),
        _ => {
            eprintln!("usage: cstsim run C02 | replay <file>");
            2
        }
    };
    std::process::exit(code);
}
