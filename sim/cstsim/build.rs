// Generate the parser for a trivial grammar with /repo's current lelwel: cstsim only needs the
// skeleton's tree builder (CstData, Cst) exactly as emitted.
use std::path::Path;
fn main() {
    let out = std::env::var("OUT_DIR").unwrap();
    let dir = Path::new(&out).join("cst_grammar");
    let _ = std::fs::create_dir_all(&dir);
    let g = dir.join("t.llw");
    std::fs::write(&g, "token A B;\ntoken Ws;\nskip Ws;\nstart s;\ns: (a | b c)*;\na: A;\nb: B;\nc: A;\n").unwrap();
    std::fs::write(dir.join("parser.rs"), "// placeholder: no skeleton wanted\n").unwrap();
    let ok = lelwel::compile(g.to_str().unwrap(), &out, false, false, 0, false, false).expect("lelwel::compile");
    assert!(ok, "the trivial grammar must be accepted");
    println!("cargo:rerun-if-changed=/repo/src/skeleton/generated.rs");
    println!("cargo:rerun-if-changed=/repo/src/backend/rust.rs");
    println!("cargo:rerun-if-changed=/repo/src/frontend/sema.rs");
    println!("cargo:rerun-if-changed=/repo/src/lib.rs");
    println!("cargo:rerun-if-changed=build.rs");
}
