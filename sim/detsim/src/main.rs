//! detsim — C15: reproducible output under controlled process entropy (Miri seeds), fresh
//! processes in varied configurations, and independence of declaration order (DESIGN.md §4.5, §5/C15).
//!
//!   detsim run C15 | replay <file>

mod probe;

use serde_json::{json, Value};
use std::collections::{BTreeMap, BTreeSet};
use std::path::{Path, PathBuf};
use std::process::{Command, Stdio};
use std::time::Instant;
use vcore::{Rng, Tier};

const PROP: &str = "C15";
const SCRATCH: &str = "/verif/target/scratch/detsim";

fn corpus() -> Vec<(String, String)> {
    let mut files: Vec<PathBuf> = vec![];
    let mut add_dir = |dir: &Path| {
        if let Ok(rd) = std::fs::read_dir(dir) {
            let mut v: Vec<_> = rd.flatten().map(|e| e.path()).collect();
            v.sort();
            for p in v {
                if p.extension().is_some_and(|e| e == "llw") {
                    files.push(p);
                }
            }
        }
    };
    add_dir(Path::new("/verif/fixtures/detsim"));
    add_dir(Path::new("/verif/fixtures/parsim"));
    if let Ok(rd) = std::fs::read_dir("/repo/examples") {
        let mut v: Vec<_> = rd.flatten().map(|e| e.path()).collect();
        v.sort();
        for p in v {
            add_dir(&p.join("src"));
        }
    }
    add_dir(Path::new("/repo/src/frontend"));
    add_dir(Path::new("/repo/tests/frontend"));
    files.into_iter().filter_map(|p| std::fs::read_to_string(&p).ok().map(|t| (p.display().to_string(), t))).collect()
}

fn first_diff(a: &str, b: &str) -> String {
    for (i, (la, lb)) in a.lines().zip(b.lines()).enumerate() {
        if la != lb {
            let section = a.lines().take(i + 1).filter(|l| l.starts_with("== ")).last().unwrap_or("").to_string();
            return format!("first difference in section {section:?}, line {}: {:?} vs {:?}", i + 1, la.chars().take(160).collect::<String>(), lb.chars().take(160).collect::<String>());
        }
    }
    format!("lengths differ: {} vs {} lines", a.lines().count(), b.lines().count())
}
fn diff_section(a: &str, b: &str) -> String {
    for (i, (la, lb)) in a.lines().zip(b.lines()).enumerate() {
        if la != lb {
            return a.lines().take(i + 1).filter(|l| l.starts_with("== ")).last().unwrap_or("== ? ==").trim_matches(|c| c == '=' || c == ' ').to_string();
        }
    }
    "length".into()
}

// ------------------------------------------------------------------------------------------
// part 1b: fresh processes, varied working directory and environment

fn native_run(probe_bin: &Path, text: &str, variant: usize, gi: usize) -> Result<String, String> {
    let dir = PathBuf::from(format!("{SCRATCH}/native/{}/g{gi}/cwd-{variant}-{}", std::process::id(), "x".repeat(variant % 7)));
    let _ = std::fs::remove_dir_all(&dir);
    std::fs::create_dir_all(&dir).map_err(|e| e.to_string())?;
    std::fs::write(dir.join("g.llw"), text).map_err(|e| e.to_string())?;
    let mut cmd = Command::new(probe_bin);
    cmd.arg("g.llw").arg("out").current_dir(&dir).stdin(Stdio::null()).stderr(Stdio::piped());
    // unrelated environment differences
    cmd.env("DETSIM_VARIANT", format!("{variant}")).env("HOME", format!("/nonexistent/{variant}")).env("LANG", if variant % 2 == 0 { "C" } else { "en_US.UTF-8" });
    if variant % 3 == 0 {
        cmd.env("NO_COLOR", "1");
    }
    if variant % 3 == 1 {
        cmd.env("TERM", "xterm-256color").env("CLICOLOR_FORCE", "1");
    }
    for k in 0..variant {
        cmd.env(format!("PADDING_{k}"), "y".repeat(k * 13));
    }
    let out = cmd.output().map_err(|e| e.to_string())?;
    let _ = std::fs::remove_dir_all(&dir);
    if !out.status.success() {
        return Err(format!("probe exited with {:?}: {}", out.status, String::from_utf8_lossy(&out.stderr).lines().take(3).collect::<Vec<_>>().join(" | ")));
    }
    Ok(String::from_utf8_lossy(&out.stdout).to_string())
}

// ------------------------------------------------------------------------------------------
// part 1a: Miri seeds (controlled entropy)

fn miri_run(text: &str, seed: u64, tag: &str) -> Result<String, String> {
    let dir = PathBuf::from(format!("{SCRATCH}/miri/{}/{tag}-seed{seed}", std::process::id()));
    let _ = std::fs::remove_dir_all(&dir);
    std::fs::create_dir_all(&dir).map_err(|e| e.to_string())?;
    std::fs::write(dir.join("g.llw"), text).map_err(|e| e.to_string())?;
    let out = Command::new("cargo")
        .args(["+nightly", "miri", "run", "--offline", "-q", "--manifest-path", "/verif/sim-miri/Cargo.toml", "-p", "miriprobe", "--"])
        .arg(dir.join("g.llw"))
        .arg(dir.join("out"))
        .env("MIRIFLAGS", format!("-Zmiri-seed={seed} -Zmiri-disable-isolation"))
        .env("CARGO_NET_OFFLINE", "true")
        .env_remove("RUSTFLAGS")
        .current_dir("/verif/sim-miri")
        .stdin(Stdio::null())
        .output()
        .map_err(|e| e.to_string())?;
    let _ = std::fs::remove_dir_all(&dir);
    if !out.status.success() {
        return Err(format!("miri run failed: {}", String::from_utf8_lossy(&out.stderr).lines().rev().take(6).collect::<Vec<_>>().join(" | ")));
    }
    Ok(String::from_utf8_lossy(&out.stdout).to_string())
}

// ------------------------------------------------------------------------------------------
// part 2: declaration order

fn chunks(text: &str, decls: &[(usize, usize)]) -> (String, Vec<String>) {
    if decls.is_empty() {
        return (text.to_string(), vec![]);
    }
    // leading trivia (incl. doc comments) travels with the declaration that follows it: cut after each declaration's end
    let mut cuts = vec![0usize];
    for (_, e) in decls {
        cuts.push(*e);
    }
    let mut v = vec![];
    for w in cuts.windows(2) {
        v.push(text[w[0]..w[1]].to_string());
    }
    let tail = text[*cuts.last().unwrap()..].to_string();
    (tail, v)
}

fn normalise_generated(g: &str) -> String {
    // rule functions appear in declaration order and the predicate/action/assertion declarations of the trait in
    // source order: compare the code modulo the order of these items
    let f1 = g.find("\n    fn rule_");
    let f2 = g.find("\n    #[allow(unused_assignments)]\n    fn rule_");
    let Some(first) = (match (f1, f2) {
        (Some(a), Some(b)) => Some(a.min(b)),
        (a, b) => a.or(b),
    }) else {
        return g.to_string();
    };
    let Some(end) = g.find("\n}\n\n#[allow(clippy::ptr_arg)]\npub trait") else { return g.to_string() };
    if end <= first {
        return g.to_string();
    }
    let head = &g[..first];
    let rules = &g[first..end];
    let tail = &g[end..];
    let mut items: Vec<String> = vec![];
    let mut cur = String::new();
    for line in rules.lines() {
        let is_attr = line == "    #[allow(unused_assignments)]";
        let is_fn = line.starts_with("    fn rule_");
        let cur_is_attr_only = cur.trim() == "#[allow(unused_assignments)]";
        if (is_attr || (is_fn && !cur_is_attr_only)) && !cur.trim().is_empty() {
            items.push(std::mem::take(&mut cur));
        }
        if cur.is_empty() && line.trim().is_empty() {
            continue;
        }
        cur.push_str(line);
        cur.push('\n');
    }
    if !cur.trim().is_empty() {
        items.push(cur);
    }
    items.sort();
    // parts (`parse_<name>` entry points) are emitted in the order of the rule declarations as well
    let mut head_lines: Vec<&str> = head.lines().collect();
    let parts_at = head_lines.iter().position(|l| l.contains("/// Returns the CST for a parse of the ") && !l.contains("start rule"));
    let mut head_s = head.to_string();
    if let Some(at) = parts_at {
        let fixed: Vec<&str> = head_lines.drain(..at).collect();
        let mut part_items: Vec<String> = vec![];
        let mut cur = String::new();
        for l in head_lines {
            if l.contains("/// Returns the CST for a parse of the ") && !cur.is_empty() {
                part_items.push(std::mem::take(&mut cur));
            }
            cur.push_str(l);
            cur.push('\n');
        }
        if !cur.is_empty() {
            part_items.push(cur);
        }
        part_items.sort();
        head_s = format!("{}\n{}", fixed.join("\n"), part_items.concat());
    }
    let mut trait_lines: Vec<&str> = tail.lines().collect();
    trait_lines.sort();
    format!("{head_s}\n{}\n{}", items.concat(), trait_lines.join("\n"))
}

struct PermResult {
    viol: Option<(String, String)>,
}

fn check_permutation(name: &str, text: &str, base: &probe::Digest, perm: &[usize], scratch: &Path) -> (PermResult, String) {
    let (tail, ch) = chunks(text, &base.decl_spans);
    let mut new_text = String::new();
    let mut new_starts = vec![0usize; ch.len()];
    for &i in perm {
        new_starts[i] = new_text.len();
        new_text.push_str(&ch[i]);
        if !ch[i].ends_with('\n') {
            new_text.push('\n');
        }
    }
    new_text.push_str(&tail);
    let d = probe::analyse(&new_text, name, Some(scratch));
    let mut old_starts = vec![0usize];
    for c in &ch {
        old_starts.push(old_starts.last().unwrap() + c.len());
    }
    // (code, message, chunk, offset in chunk)
    let locate = |starts: &[usize], lens: &[usize], pos: usize| -> (usize, usize) {
        for (i, s) in starts.iter().enumerate() {
            if pos >= *s && pos < *s + lens[i].max(1) {
                return (i, pos - *s);
            }
        }
        (usize::MAX, pos)
    };
    let lens: Vec<usize> = ch.iter().map(|c| c.len()).collect();
    let mut wa: Vec<(String, String, usize, usize)> = base.diag_list.iter().map(|(c, m, s, _)| { let (i, o) = locate(&old_starts[..ch.len()], &lens, *s); (c.clone(), m.clone(), i, o) }).collect();
    let lens_new: Vec<usize> = ch.iter().map(|c| if c.ends_with('\n') { c.len() } else { c.len() + 1 }).collect();
    let mut wb: Vec<(String, String, usize, usize)> = d.diag_list.iter().map(|(c, m, s, _)| { let (i, o) = locate(&new_starts, &lens_new, *s); (c.clone(), m.clone(), i, o) }).collect();
    wa.sort();
    wb.sort();
    if d.has_error != base.has_error || wa != wb {
        let only_a: Vec<_> = wa.iter().filter(|x| !wb.contains(x)).take(2).collect();
        let only_b: Vec<_> = wb.iter().filter(|x| !wa.contains(x)).take(2).collect();
        let code = only_a.first().or(only_b.first()).map(|x| x.0.clone()).unwrap_or_default();
        return (PermResult { viol: Some((format!("C15.order.diagnostics_differ:{code}"), format!("only in the original order: {only_a:?}; only in the permuted order: {only_b:?}"))) }, new_text);
    }
    if d.sets != base.sets {
        let key = base.sets.iter().find(|(k, v)| d.sets.get(*k) != Some(v)).map(|(k, _)| k.clone()).or_else(|| d.sets.keys().find(|k| !base.sets.contains_key(*k)).cloned()).unwrap_or_default();
        let what = {
            let a = base.sets.get(&key).cloned().unwrap_or_default();
            let b = d.sets.get(&key).cloned().unwrap_or_default();
            let fa: Vec<&str> = a.split(' ').collect();
            let fb: Vec<&str> = b.split(' ').collect();
            fa.iter().zip(fb.iter()).find(|(x, y)| x != y).map(|(x, _)| x.split('=').next().unwrap_or("").to_string()).unwrap_or_else(|| "entry".into())
        };
        return (PermResult { viol: Some((format!("C15.order.analysis_differs:{what}"), format!("at {key:?}: {:?} vs {:?}", base.sets.get(&key), d.sets.get(&key)))) }, new_text);
    }
    match (&base.generated, &d.generated) {
        (Some(a), Some(b)) => {
            let (na, nb) = (normalise_generated(a), normalise_generated(b));
            // if the structured normalisation does not make them equal, a difference that is only a reordering of
            // whole lines is still not a difference in content (robust against layout changes of the emitted file)
            let same_lines = {
                let mut la: Vec<&str> = a.lines().collect();
                let mut lb: Vec<&str> = b.lines().collect();
                la.sort();
                lb.sort();
                la == lb
            };
            if na != nb && !same_lines {
                if std::env::var("DETSIM_DEBUG").is_ok() {
                    let _ = std::fs::write("/tmp/detsim_a.rs", &na);
                    let _ = std::fs::write("/tmp/detsim_b.rs", &nb);
                    let _ = std::fs::write("/tmp/detsim_a_raw.rs", a);
                    let _ = std::fs::write("/tmp/detsim_b_raw.rs", b);
                }
                return (PermResult { viol: Some(("C15.order.generated_parser_differs".into(), first_diff(&na, &nb))) }, new_text);
            }
        }
        (None, None) => {}
        _ => return (PermResult { viol: Some(("C15.order.generated_parser_differs".into(), "generated for one order only".into())) }, new_text),
    }
    (PermResult { viol: None }, new_text)
}

// ------------------------------------------------------------------------------------------

fn build_probe() -> PathBuf {
    std::env::current_exe().expect("current_exe").parent().unwrap().join("detsim-probe")
}

fn run(tier: Tier, seed: u64) -> i32 {
    let t0 = Instant::now();
    vcore::quiet_panics();
    let _ = std::fs::create_dir_all(SCRATCH);
    let root = Rng::new(seed);
    let mut all = corpus();
    // seeded random grammars from the farm's generator (markers, node names and callback numbers are reused
    // across rules, rules are declared in seeded orders): workload for the in-process, fresh-process and permutation parts
    let n_random = tier.pick(300usize, 2500usize);
    for k in 0..n_random {
        let mut rng = root.child("grammar", k as u64);
        let mut m = parsim_rt::gen::random_grammar(&mut rng);
        let mut label = format!("seeded random grammar #{k}");
        if k % 4 == 3 {
            // library-style variant: a one-token start rule is added and the former start rule and a seeded subset of the
            // other rules become `part` entry points, so that rules are reachable through parts only and parts refer to parts
            let mut r2 = root.child("library variant", k as u64);
            if let Some(t) = m.tokens.iter().position(|t| !t.skipped) {
                let old_start = m.start;
                m.rules.push(parsim_rt::model::RuleM { name: "entry0".into(), elided: false, body: Some(parsim_rt::model::Rx::Tok(t)) });
                m.start = m.rules.len() - 1;
                let mut parts = vec![old_start];
                for r in 0..m.rules.len() - 1 {
                    if r != old_start && (m.parts.contains(&r) || r2.chance(1, 2)) {
                        parts.push(r);
                    }
                }
                parts.sort();
                m.parts = parts;
                label = format!("seeded random grammar #{k} (library-style: parts only)");
            }
        }
        all.push((label, m.to_text()));
    }
    if let Ok(dir) = std::env::var("DETSIM_DUMP") {
        // diagnostic: write the workload grammars out
        let _ = std::fs::create_dir_all(&dir);
        for (i, (name, text)) in all.iter().enumerate() {
            let _ = std::fs::write(format!("{dir}/{i:04}.llw"), format!("// {name}\n{text}"));
        }
    }
    let probe_bin = build_probe();
    let mut verdicts = vcore::Verdicts::new(PROP);
    let mut evaluations = 0usize;
    let mut distinct: BTreeSet<u64> = BTreeSet::new();
    let mut counts: BTreeMap<&'static str, usize> = BTreeMap::new();
    let mut samples: Vec<Value> = vec![];
    let mut report = |verdicts: &mut vcore::Verdicts, sig: String, detail: String, name: &str, text: &str, extra: Value| {
        verdicts.violation(&sig, &json!({"engine": "detsim", "seed": seed, "detail": detail, "grammar": name, "grammar_text": text, "how": extra}));
    };

    // ---- part 1c: same process, twice and in fresh threads --------------------------------------------------
    let mut base: Vec<(String, String, probe::Digest, String)> = vec![];
    // one text buffer recycled for every grammar: the text of each grammar then lives at the address the previous
    // grammar's text had (what a long-running caller - build script over several grammars, the language server - does)
    let mut recycled = String::with_capacity(all.iter().map(|(_, t)| t.len()).max().unwrap_or(0) + 1);
    for (gi, (name, text)) in all.iter().enumerate() {
        let sc = PathBuf::from(format!("{SCRATCH}/inproc/{}/{gi}", std::process::id()));
        let rel = "g.llw";
        let Ok(d1) = std::panic::catch_unwind(|| probe::analyse(text, rel, Some(&sc))) else { continue };
        let t1 = d1.full_text();
        let Ok(d2) = std::panic::catch_unwind(|| probe::analyse(text, rel, Some(&sc))) else { continue };
        evaluations += 2;
        if d2.full_text() != t1 {
            report(&mut verdicts, format!("C15.rerun.same_process_differs:{}", diff_section(&t1, &d2.full_text())), first_diff(&t1, &d2.full_text()), name, text, json!("twice in one thread"));
        }
        // after every other grammar compiled by this thread so far, from the recycled buffer
        recycled.clear();
        recycled.push_str(text);
        if let Ok(d4) = std::panic::catch_unwind(|| probe::analyse(&recycled, rel, Some(&sc))) {
            evaluations += 1;
            *counts.entry("runs_after_other_grammars_recycled_buffer").or_default() += 1;
            if d4.full_text() != t1 {
                report(&mut verdicts, format!("C15.rerun.depends_on_earlier_compilations:{}", diff_section(&t1, &d4.full_text())), first_diff(&t1, &d4.full_text()), name, text, json!("same thread, text in a buffer that held the previous grammar"));
            }
        }
        let (tx, sc2) = (text.clone(), sc.clone());
        let t3 = std::thread::spawn(move || std::panic::catch_unwind(|| probe::analyse(&tx, "g.llw", Some(&sc2)).full_text()).unwrap_or_default()).join().unwrap_or_default();
        evaluations += 1;
        if t3 != t1 {
            report(&mut verdicts, format!("C15.rerun.fresh_thread_differs:{}", diff_section(&t1, &t3)), first_diff(&t1, &t3), name, text, json!("fresh thread"));
        }
        distinct.insert(vcore::hash_str(&t1));
        let _ = std::fs::remove_dir_all(&sc);
        base.push((name.clone(), text.clone(), d1, t1));
    }
    *counts.entry("grammars").or_default() = base.len();
    *counts.entry("grammars_accepted").or_default() = base.iter().filter(|b| !b.2.has_error).count();

    // ---- part 1b: fresh processes x cwd x environment (entropy not controlled: real RandomState, ASLR, pids) ----
    let n_native = tier.pick(8usize, 32usize);
    let nw = vcore::workers();
    let jobs: Vec<(usize, usize)> = (0..base.len()).flat_map(|g| (0..(if base[g].0.starts_with("seeded random") { 2 } else { n_native })).map(move |v| (g, v))).collect();
    let results = std::sync::Mutex::new(vec![]);
    std::thread::scope(|sc| {
        for w in 0..nw {
            let (jobs, base, results, probe_bin) = (&jobs, &base, &results, &probe_bin);
            sc.spawn(move || {
                let mut i = w;
                while i < jobs.len() {
                    let (g, v) = jobs[i];
                    let r = native_run(probe_bin, &base[g].1, v, g);
                    results.lock().unwrap().push((g, v, r));
                    i += nw;
                }
            });
        }
    });
    let mut results = results.into_inner().unwrap();
    results.sort_by_key(|r| (r.0, r.1));
    for (g, v, r) in results {
        evaluations += 1;
        *counts.entry("fresh_process_runs").or_default() += 1;
        match r {
            Err(e) => report(&mut verdicts, "C15.rerun.fresh_process_failed".into(), e, &base[g].0, &base[g].1, json!({"variant": v})),
            Ok(t) => {
                if t != base[g].3 {
                    report(&mut verdicts, format!("C15.rerun.fresh_process_differs:{}", diff_section(&base[g].3, &t)), first_diff(&base[g].3, &t), &base[g].0, &base[g].1, json!({"variant": v, "note": "uncontrolled entropy: rerun to reproduce (probability < 1)"}));
                }
            }
        }
    }

    // ---- part 1a: Miri seeds (controlled, replayable entropy) --------------------------------------------------
    let miri_grammars: Vec<usize> = {
        let pick = |pat: &str| base.iter().position(|b| b.0.ends_with(pat));
        let mut v: Vec<usize> = [pick("kitchen_sink.llw"), pick("many_errors.llw")].into_iter().flatten().collect();
        if tier == Tier::Thorough {
            for p in ["json.llw", "calc.llw", "l.llw", "toml.llw", "brainfuck.llw", "shared_rule_choice.llw"] {
                v.extend(pick(p));
            }
        }
        v
    };
    let miri_seeds: Vec<u64> = (0..tier.pick(4u64, 16u64)).map(|k| (vcore::h(&[seed, 0x3141, k]) % 1_000_000) + k).collect();
    let mut miri_ok = true;
    if let Some(&g0) = miri_grammars.first() {
        // the first run also builds the Miri sysroot / dependency cache; if Miri is unusable say so and stop (exit 2), do not pretend
        match miri_run(&base[g0].1, miri_seeds[0], "warm") {
            Err(e) => {
                miri_ok = false;
                eprintln!("harness error: Miri is not usable here: {e}");
            }
            Ok(_) => {}
        }
    }
    if !miri_ok {
        std::process::exit(2);
    }
    let mjobs: Vec<(usize, u64)> = miri_grammars.iter().flat_map(|g| miri_seeds.iter().map(move |s| (*g, *s))).collect();
    let mresults = std::sync::Mutex::new(vec![]);
    std::thread::scope(|sc| {
        for w in 0..nw.min(mjobs.len().max(1)) {
            let (mjobs, base, mresults) = (&mjobs, &base, &mresults);
            sc.spawn(move || {
                let mut i = w;
                while i < mjobs.len() {
                    let (g, s) = mjobs[i];
                    let r = miri_run(&base[g].1, s, &format!("g{g}"));
                    mresults.lock().unwrap().push((g, s, r));
                    i += nw;
                }
            });
        }
    });
    let mut mresults = mresults.into_inner().unwrap();
    mresults.sort_by_key(|r| (r.0, r.1));
    let mut miri_first: BTreeMap<usize, (u64, String)> = BTreeMap::new();
    for (g, s, r) in mresults {
        evaluations += 1;
        *counts.entry("miri_seeded_runs").or_default() += 1;
        match r {
            Err(e) => {
                eprintln!("harness error: a Miri run failed: {e}");
                std::process::exit(2);
            }
            Ok(t) => {
                distinct.insert(vcore::h(&[vcore::hash_str(&t), s]));
                match miri_first.get(&g) {
                    None => {
                        miri_first.insert(g, (s, t));
                    }
                    Some((s0, t0)) => {
                        if &t != t0 {
                            report(&mut verdicts, format!("C15.rerun.miri_seeds_differ:{}", diff_section(t0, &t)), first_diff(t0, &t), &base[g].0, &base[g].1, json!({"miri_seed_a": s0, "miri_seed_b": s, "replay": "both seeds reproduce exactly"}));
                        }
                    }
                }
            }
        }
    }
    if samples.len() < 1 {
        samples.push(json!({"kind": "miri seeded runs", "grammars": miri_grammars.iter().map(|g| base[*g].0.clone()).collect::<Vec<_>>(), "seeds": miri_seeds}));
    }

    // ---- part 2: permutations of the top-level declarations (accepted grammars) -------------------------------
    let n_perm = tier.pick(12usize, 60usize);
    let accepted: Vec<usize> = (0..base.len()).filter(|g| !base[*g].2.has_error && base[*g].2.decl_spans.len() >= 2).collect();
    let presults = std::sync::Mutex::new(vec![]);
    std::thread::scope(|sc| {
        for w in 0..nw {
            let (accepted, base, presults, root) = (&accepted, &base, &presults, &root);
            sc.spawn(move || {
                let mut i = w;
                while i < accepted.len() * n_perm {
                    let g = accepted[i / n_perm];
                    let k = i % n_perm;
                    let n = base[g].2.decl_spans.len();
                    let mut perm: Vec<usize> = (0..n).collect();
                    let mut rng = root.child("perm", (g * 1000 + k) as u64);
                    match k {
                        0 => perm.reverse(),
                        1 => perm.rotate_left(1),
                        _ => rng.shuffle(&mut perm),
                    }
                    let sc = PathBuf::from(format!("{SCRATCH}/perm/{}/{g}-{k}", std::process::id()));
                    let text = base[g].1.clone();
                    let r = std::panic::catch_unwind(std::panic::AssertUnwindSafe(|| check_permutation("g.llw", &text, &base[g].2, &perm, &sc)));
                    let _ = std::fs::remove_dir_all(&sc);
                    presults.lock().unwrap().push((g, k, perm, r.ok()));
                    i += nw;
                }
            });
        }
    });
    let mut presults = presults.into_inner().unwrap();
    presults.sort_by_key(|r| (r.0, r.1));
    for (g, k, perm, r) in presults {
        evaluations += 1;
        *counts.entry("permutations_checked").or_default() += 1;
        distinct.insert(vcore::h(&[vcore::hash_str(&base[g].1), vcore::hash_str(&format!("{perm:?}"))]));
        match r {
            None => report(&mut verdicts, "C15.order.lelwel_panicked_on_permuted_grammar".into(), format!("permutation {perm:?}"), &base[g].0, &base[g].1, json!({"permutation": perm})),
            Some((pr, new_text)) => {
                if samples.len() < 3 && k == 2 {
                    samples.push(json!({"kind": "declaration permutation", "grammar": base[g].0, "permutation": perm, "permuted_text_head": new_text.chars().take(200).collect::<String>()}));
                }
                if let Some((sig, detail)) = pr.viol {
                    report(&mut verdicts, sig, detail, &base[g].0, &base[g].1, json!({"permutation": perm, "permuted_text": new_text}));
                }
            }
        }
    }

    let code = verdicts.finish();
    let wall = t0.elapsed().as_secs_f64();
    vcore::Evidence {
        property_id: PROP.into(),
        tier,
        seed,
        level: "exploration",
        coverage: json!({
            "evaluations": evaluations,
            "distinct_nontrivial": distinct.len(),
            "run_digest": format!("{:016x}", distinct.iter().fold(0u64, |a, h| a ^ vcore::mix(*h))),
            "rule": "evaluation = one complete lelwel run (front end, analysis, rendered diagnostics in both display styles, generated.rs / parser.rs / lexer.rs, dump of every analysis set keyed by rule name + regex-tree path) on one grammar in one configuration: (a) under a Miri seed, which decides every RandomState and allocation address reproducibly; (b) in a fresh native process with its own cwd, environment size, HOME/LANG/TERM/NO_COLOR (entropy not controlled); (c) twice in one thread and in a fresh thread; (d) on a seeded permutation of the top-level declarations (accepted grammars; reversal, rotation, shuffles). Outputs of (a)-(c) must be byte-identical per grammar; (d) must give the same diagnostics as a multiset of (code, message, declaration, offset), identical analysis sets and identical generated code modulo the order of rule functions / trait method declarations. Distinct = different (grammar, configuration).",
            "samples": samples,
            "counts": counts,
            "fault_kinds_fired": {
                "miri_seeds": miri_seeds.len(),
                "miri_seeded_runs": counts.get("miri_seeded_runs"),
                "fresh_process_configurations": n_native,
                "declaration_permutations_per_grammar": n_perm,
            },
            "runs_per_hour": (evaluations as f64 / wall * 3600.0) as u64,
            "simulated_time_s": 0,
            "simulated_time_note": "lelwel reads no clock",
            "real_vs_stub": {
                "real": ["Parser, SemanticPass, RustOutput (generated.rs, parser.rs, lexer.rs), codespan diagnostic rendering"],
                "simulated": ["process entropy: Miri's seeded getrandom/address choices (controlled); working directory, environment (varied, uncontrolled entropy underneath)"],
            },
        }),
        assumptions: vec![
            "part (b) and (c) observe executions whose entropy the simulator does not own; the deciding, replayable step for hash-order dependence is (a)".into(),
            "declaration-order independence is a metamorphic relation with nothing injected (DESIGN §5/C15 'Fit'); behavioural equality of the generated parser is concluded from equality of its code modulo item order".into(),
            "the Miri probe builds lelwel without features and without the verification cfg".into(),
        ],
        wall_s: wall,
        violations: verdicts.count_new(),
        extra: json!({"engine": "detsim"}),
    }
    .write();
    println!("detsim: tier={} seed={seed} grammars={} runs={evaluations} miri_runs={} new_violations={} known={} wall={wall:.1}s", tier.name(), base.len(), counts.get("miri_seeded_runs").copied().unwrap_or(0), verdicts.count_new(), verdicts.known_hits.len());
    let _ = std::fs::remove_dir_all(SCRATCH);
    code
}

fn replay(file: &str) -> i32 {
    vcore::quiet_panics();
    let text = std::fs::read_to_string(file).unwrap_or_else(|e| vcore::harness_error(&format!("cannot read {file}: {e}")));
    let v: Value = serde_json::from_str(&text).unwrap_or_else(|e| vcore::harness_error(&format!("replay file does not parse: {e}")));
    let sig = v["signature"].as_str().unwrap_or("").to_string();
    let gtext = v["grammar_text"].as_str().unwrap_or("").to_string();
    let how = &v["how"];
    let sc = PathBuf::from(format!("{SCRATCH}/replay/{}", std::process::id()));
    let got: Option<String> = if let Some(perm) = how["permutation"].as_array() {
        let perm: Vec<usize> = perm.iter().filter_map(|x| x.as_u64().map(|x| x as usize)).collect();
        let base = probe::analyse(&gtext, "g.llw", Some(&sc));
        check_permutation("g.llw", &gtext, &base, &perm, &sc).0.viol.map(|x| x.0)
    } else if let (Some(a), Some(b)) = (how["miri_seed_a"].as_u64(), how["miri_seed_b"].as_u64()) {
        match (miri_run(&gtext, a, "ra"), miri_run(&gtext, b, "rb")) {
            (Ok(x), Ok(y)) if x != y => Some(format!("C15.rerun.miri_seeds_differ:{}", diff_section(&x, &y))),
            (Ok(_), Ok(_)) => None,
            (e1, e2) => vcore::harness_error(&format!("Miri failed: {:?} {:?}", e1.err(), e2.err())),
        }
    } else {
        // uncontrolled-entropy findings: repeat fresh processes
        let probe_bin = build_probe();
        let base = probe::analyse(&gtext, "g.llw", Some(&sc)).full_text();
        (0..32).find_map(|k| native_run(&probe_bin, &gtext, k, 0).ok().filter(|t| *t != base).map(|t| format!("C15.rerun.fresh_process_differs:{}", diff_section(&base, &t))))
    };
    let _ = std::fs::remove_dir_all(&sc);
    println!("replay gives: {got:?}");
    if got.as_deref() == Some(sig.as_str()) {
        println!("VIOLATION property={PROP} replay={file}");
        1
    } else {
        println!("not reproduced: {sig}");
        0
    }
}

fn main() {
    let args: Vec<String> = std::env::args().collect();
    let code = match args.get(1).map(|s| s.as_str()) {
        Some("run") => run(vcore::tier_from_env(), vcore::seed_from_env()),
        Some("replay") => replay(&args[2]),
        _ => {
            eprintln!("usage: detsim run C15 | replay <file>");
            2
        }
    };
    std::process::exit(code);
}
