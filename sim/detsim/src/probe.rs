//! One complete lelwel run on one grammar, reduced to a text digest of everything the property
//! speaks about: rendered diagnostics, generated.rs / parser.rs / lexer.rs bytes, and every analysis
//! set under a key that survives reordering of declarations (rule name + path in the regex tree).
//! Shared by the native probe, the Miri probe and the in-process checks (included via #[path]).

use lelwel::frontend::ast::{self, AstNode, Named};
use lelwel::frontend::parser::{Cst, NodeRef, Parser};
use lelwel::frontend::sema::{SemanticData, SemanticPass};
use std::collections::BTreeMap;
use std::path::Path;

pub struct Digest {
    pub diagnostics: String,
    pub generated: Option<String>,
    pub parser_rs: Option<String>,
    pub lexer_rs: Option<String>,
    /// key -> value lines of the analysis
    pub sets: BTreeMap<String, String>,
    /// (code, message, start, end) of every diagnostic
    pub diag_list: Vec<(String, String, usize, usize)>,
    /// spans of the top-level declarations
    pub decl_spans: Vec<(usize, usize)>,
    pub has_error: bool,
}

fn regex_paths(cst: &Cst<'_>, sema: &SemanticData<'_>, r: ast::Regex, path: String, out: &mut BTreeMap<String, String>) {
    use ast::Regex as R;
    let id = r.syntax();
    let set = |m: &rustc_hash_compat::Map| m.get(&id).map(|s| format!("{s:?}")).unwrap_or_else(|| "-".into());
    let kind = match r {
        R::OrderedChoice(_) => "choice",
        R::Alternation(_) => "alt",
        R::Concat(_) => "cat",
        R::Paren(_) => "paren",
        R::Optional(_) => "opt",
        R::Star(_) => "star",
        R::Plus(_) => "plus",
        R::Name(_) => "name",
        R::Symbol(_) => "sym",
        R::Predicate(_) => "pred",
        R::Action(_) => "action",
        R::Assertion(_) => "assert",
        R::NodeRename(_) => "rename",
        R::NodeElision(_) => "elide",
        R::NodeMarker(_) => "marker",
        R::NodeCreation(_) => "create",
        R::Commit(_) => "commit",
        R::Return(_) => "return",
    };
    let elision = sema.elision.get(&id).map(|e| match e {
        lelwel::frontend::sema::RuleNodeElision::None => "none",
        lelwel::frontend::sema::RuleNodeElision::Unconditional => "unconditional",
        lelwel::frontend::sema::RuleNodeElision::Conditional => "conditional",
    });
    out.insert(
        format!("{path}:{kind}"),
        format!(
            "first={} follow={} predict={} recovery={} localfollow={} elision={:?} used_in_choice={} binds_decl={}",
            set(&sema.first_sets),
            set(&sema.follow_sets),
            set(&sema.predict_sets),
            set(&sema.recovery_sets),
            set(&sema.left_rec_local_follow_sets),
            elision,
            sema.used_in_ordered_choice.contains(&id),
            sema.decl_bindings.get(&id).map(|d| decl_name(cst, *d)).unwrap_or_default(),
        ),
    );
    let kids: Vec<ast::Regex> = match r {
        R::OrderedChoice(x) => x.operands(cst).collect(),
        R::Alternation(x) => x.operands(cst).collect(),
        R::Concat(x) => x.operands(cst).collect(),
        R::Paren(x) => x.inner(cst).into_iter().collect(),
        R::Optional(x) => x.operand(cst).into_iter().collect(),
        R::Star(x) => x.operand(cst).into_iter().collect(),
        R::Plus(x) => x.operand(cst).into_iter().collect(),
        _ => vec![],
    };
    for (i, k) in kids.into_iter().enumerate() {
        regex_paths(cst, sema, k, format!("{path}/{i}"), out);
    }
}

mod rustc_hash_compat {
    pub type Map<'a> = std::collections::HashMap<lelwel::frontend::parser::NodeRef, std::collections::BTreeSet<lelwel::frontend::sema::TokenName<'a>>, rustc_hash::FxBuildHasher>;
}

fn decl_name(cst: &Cst<'_>, d: NodeRef) -> String {
    if let Some(r) = ast::RuleDecl::cast(cst, d) {
        return format!("rule:{}", r.name(cst).map(|n| n.0).unwrap_or("?"));
    }
    if let Some(t) = ast::TokenDecl::cast(cst, d) {
        return format!("token:{}", t.name(cst).map(|n| n.0).unwrap_or("?"));
    }
    "?".into()
}

pub fn analyse(source: &str, input_name: &str, outdir: Option<&Path>) -> Digest {
    use codespan_reporting::diagnostic::Severity;
    use codespan_reporting::files::SimpleFile;
    use codespan_reporting::term::termcolor::NoColor;
    use codespan_reporting::term::{self, Config, DisplayStyle};
    let mut diags = vec![];
    let cst = Parser::new(source, &mut diags).parse(&mut diags);
    let sema = SemanticPass::run(&cst, &mut diags);
    let file = SimpleFile::new(input_name, source);
    let mut rendered = String::new();
    for style in [DisplayStyle::Rich, DisplayStyle::Short] {
        let mut w = NoColor::new(Vec::new());
        let config = Config { display_style: style, ..Default::default() };
        for d in &diags {
            term::emit_to_write_style(&mut w, &config, &file, d).unwrap();
        }
        rendered.push_str(&String::from_utf8_lossy(w.get_ref()));
        rendered.push_str("\n----\n");
    }
    let diag_list = diags
        .iter()
        .map(|d| {
            let (s, e) = d.labels.first().map_or((0, 0), |l| (l.range.start, l.range.end));
            let mut msg = d.message.clone();
            for l in &d.labels {
                msg.push_str(" | ");
                msg.push_str(&l.message);
            }
            (d.code.clone().unwrap_or_default(), msg, s, e)
        })
        .collect();
    let has_error = diags.iter().any(|d| d.severity == Severity::Error);
    let mut sets = BTreeMap::new();
    let mut decl_spans = vec![];
    if let Some(f) = ast::File::cast(&cst, NodeRef::ROOT) {
        for c in cst.children(NodeRef::ROOT) {
            if ast::Decl::cast(&cst, c).is_some() || matches!(cst.get(c), lelwel::frontend::parser::Node::Rule(lelwel::frontend::parser::Rule::TokenList, _)) {
                let sp = cst.span(c);
                decl_spans.push((sp.start, sp.end));
            }
        }
        for rule in f.rule_decls(&cst) {
            let name = rule.name(&cst).map(|n| n.0).unwrap_or("?").to_string();
            sets.insert(
                format!("rule {name}"),
                format!(
                    "used={} in_choice={} rename={} creation={} part={} start={} recursive={}",
                    sema.used.contains(&rule.syntax()),
                    sema.used_in_ordered_choice.contains(&rule.syntax()),
                    sema.has_rule_rename.contains(&rule),
                    sema.has_rule_creation.contains(&rule),
                    sema.parts.contains(&rule),
                    sema.start_rule == Some(rule),
                    sema.recursive.get(&rule).map(|rb| rb.branches().iter().map(|b| format!("{:?}", rb.binding_power(b.regex()))).collect::<Vec<_>>().join(",")).unwrap_or_default(),
                ),
            );
            if let Some(rx) = rule.regex(&cst) {
                regex_paths(&cst, &sema, rx, format!("rule {name}"), &mut sets);
            }
        }
        for t in f.token_decls(&cst) {
            let name = t.name(&cst).map(|n| n.0).unwrap_or("?").to_string();
            sets.insert(format!("token {name}"), format!("used={} skipped={} right={}", sema.used.contains(&t.syntax()), sema.skipped.contains(&t), sema.right_associative.contains(name.as_str())));
        }
        let mut ub: Vec<String> = sema.rule_bindings.iter().map(|(k, v)| format!("{k}:{}", v.len())).collect();
        ub.sort();
        sets.insert("node names".into(), ub.join(","));
        sets.insert("undefined".into(), format!("{:?} {:?}", sema.undefined_rules, sema.undefined_tokens));
    }
    let (mut generated, mut parser_rs, mut lexer_rs) = (None, None, None);
    if let (false, Some(dir)) = (has_error, outdir) {
        let src = dir.join("src");
        let out = dir.join("out");
        let _ = std::fs::remove_dir_all(dir);
        std::fs::create_dir_all(&src).expect("mkdir");
        std::fs::create_dir_all(&out).expect("mkdir");
        let input = src.join("g.llw");
        std::fs::write(&input, source).expect("write grammar");
        lelwel::backend::rust::RustOutput::run(&cst, &sema, &input, &out).expect("RustOutput::run");
        generated = std::fs::read_to_string(out.join("generated.rs")).ok();
        parser_rs = std::fs::read_to_string(src.join("parser.rs")).ok();
        lexer_rs = std::fs::read_to_string(src.join("lexer.rs")).ok();
    }
    Digest { diagnostics: rendered, generated, parser_rs, lexer_rs, sets, diag_list, decl_spans, has_error }
}

impl Digest {
    /// everything that must be byte-identical between two runs on the same text
    pub fn full_text(&self) -> String {
        let mut s = String::new();
        s.push_str("== diagnostics ==\n");
        s.push_str(&self.diagnostics);
        for (name, part) in [("generated.rs", &self.generated), ("parser.rs", &self.parser_rs), ("lexer.rs", &self.lexer_rs)] {
            s.push_str(&format!("== {name} ==\n"));
            s.push_str(part.as_deref().unwrap_or("<not written>"));
            s.push('\n');
        }
        s.push_str("== sets ==\n");
        for (k, v) in &self.sets {
            s.push_str(&format!("{k} => {v}\n"));
        }
        s
    }
}
