//! Native probe: one lelwel run in a fresh process; prints the digest.
#[path = "../probe.rs"]
mod probe;
fn main() {
    let args: Vec<String> = std::env::args().collect();
    let source = std::fs::read_to_string(&args[1]).expect("read grammar");
    let d = probe::analyse(&source, &args[1], Some(std::path::Path::new(&args[2])));
    print!("{}", d.full_text());
}
