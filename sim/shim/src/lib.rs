//! lelwel_verif_shim — the seams the simulators own.
//!
//! /repo's sources gain only `#[cfg(lelwel_verif)] use ::lelwel_verif_shim::std_xxx as std;`
//! lines; inside those modules the name `std` then resolves to one of the modules below,
//! which re-export the real `std` and replace exactly the sub-modules a simulator must own.
//!
//! * `std_fs`  (S2): `std::fs::{File::create, read_to_string, write}` + `Write for File`
//!   become a logging, fault-injecting pass-through (see `fs_ctl`).
//! * `std_ide` (S1): `std::thread::{spawn, JoinHandle}` and `std::sync::mpsc` become
//!   shuttle-backed, with std's panic semantics restored (see `ide_ctl`).
//!
//! With no simulator installed `std_fs` behaves exactly like std. `std_ide` may only be
//! used inside a shuttle execution (only `lspsim` does that).

pub mod fs_ctl {
    use std::cell::RefCell;
    use std::collections::BTreeMap;
    use std::io;
    use std::path::{Path, PathBuf};

    #[derive(Clone, Copy, Debug, PartialEq, Eq, Hash, PartialOrd, Ord)]
    pub enum OpKind {
        Create,
        Write,
        Flush,
        ReadToString,
        WriteFile,
    }

    #[derive(Clone, Copy, Debug, PartialEq, Eq, Hash, PartialOrd, Ord)]
    pub enum Fault {
        /// the operation fails with this error kind and has no effect
        Err(ErrKind),
        /// (Write only) half of the buffer is written and reported as a short write; every
        /// later write to the same file fails with this kind
        ShortThenErr(ErrKind),
    }

    #[derive(Clone, Copy, Debug, PartialEq, Eq, Hash, PartialOrd, Ord)]
    pub enum ErrKind {
        NotFound,
        PermissionDenied,
        StorageFull,
        Interrupted,
        Other,
    }
    impl ErrKind {
        pub fn to_io(self) -> io::Error {
            io::Error::from(match self {
                ErrKind::NotFound => io::ErrorKind::NotFound,
                ErrKind::PermissionDenied => io::ErrorKind::PermissionDenied,
                ErrKind::StorageFull => io::ErrorKind::StorageFull,
                ErrKind::Interrupted => io::ErrorKind::Interrupted,
                ErrKind::Other => io::ErrorKind::Other,
            })
        }
        pub const ALL: [ErrKind; 5] = [
            ErrKind::NotFound,
            ErrKind::PermissionDenied,
            ErrKind::StorageFull,
            ErrKind::Interrupted,
            ErrKind::Other,
        ];
    }

    #[derive(Clone, Debug)]
    pub struct OpRec {
        pub seq: usize,
        pub kind: OpKind,
        pub path: PathBuf,
        /// bytes requested (Write/WriteFile) or returned (ReadToString)
        pub bytes: usize,
        /// Ok(bytes done) or the injected / real error kind
        pub result: Result<usize, String>,
        /// fault injected by the simulator at this op (None = the real outcome)
        pub injected: Option<Fault>,
        /// the op happened while the thread was unwinding or inside a `Drop` flush after an error
        pub in_unwind: bool,
    }

    #[derive(Default)]
    pub struct State {
        pub plan: BTreeMap<usize, Fault>,
        pub log: Vec<OpRec>,
        pub next: usize,
    }

    thread_local! {
        static CTL: RefCell<Option<State>> = const { RefCell::new(None) };
    }

    /// Install a simulator for the current thread. `plan` maps op sequence numbers to faults.
    pub fn install(plan: BTreeMap<usize, Fault>) {
        CTL.with(|c| {
            *c.borrow_mut() = Some(State {
                plan,
                log: vec![],
                next: 0,
            })
        });
    }
    /// Remove the simulator and return the op log.
    pub fn finish() -> Vec<OpRec> {
        CTL.with(|c| c.borrow_mut().take().map(|s| s.log).unwrap_or_default())
    }
    pub fn active() -> bool {
        CTL.with(|c| c.borrow().is_some())
    }

    /// Called by the seam before an operation. Returns the fault to inject, if any, and the seq.
    pub(crate) fn before(_kind: OpKind) -> (usize, Option<Fault>) {
        CTL.with(|c| {
            let mut b = c.borrow_mut();
            match b.as_mut() {
                None => (usize::MAX, None),
                Some(s) => {
                    let seq = s.next;
                    s.next += 1;
                    (seq, s.plan.get(&seq).copied())
                }
            }
        })
    }
    pub(crate) fn after(
        seq: usize,
        kind: OpKind,
        path: &Path,
        bytes: usize,
        result: Result<usize, String>,
        injected: Option<Fault>,
    ) {
        if seq == usize::MAX {
            return;
        }
        CTL.with(|c| {
            if let Some(s) = c.borrow_mut().as_mut() {
                s.log.push(OpRec {
                    seq,
                    kind,
                    path: path.to_path_buf(),
                    bytes,
                    result,
                    injected,
                    in_unwind: std::thread::panicking(),
                });
            }
        });
    }
    pub(crate) fn kind_name(e: &io::Error) -> String {
        format!("{:?}", e.kind())
    }
}

pub mod std_fs {
    pub use ::std::*;

    pub mod fs {
        pub use ::std::fs::*;

        use crate::fs_ctl::{self, ErrKind, Fault, OpKind};
        use ::std::io;
        use ::std::path::{Path, PathBuf};

        /// Stand-in for `std::fs::File` (only what lelwel uses: `create` + `Write`).
        #[derive(Debug)]
        pub struct File {
            inner: ::std::fs::File,
            path: PathBuf,
            poisoned: Option<ErrKind>,
        }

        impl File {
            pub fn create<P: AsRef<Path>>(path: P) -> io::Result<File> {
                let path = path.as_ref();
                let (seq, fault) = fs_ctl::before(OpKind::Create);
                if let Some(Fault::Err(k) | Fault::ShortThenErr(k)) = fault {
                    fs_ctl::after(seq, OpKind::Create, path, 0, Err(format!("{k:?}")), fault);
                    return Err(k.to_io());
                }
                let res = ::std::fs::File::create(path);
                fs_ctl::after(
                    seq,
                    OpKind::Create,
                    path,
                    0,
                    res.as_ref().map(|_| 0).map_err(fs_ctl::kind_name),
                    None,
                );
                res.map(|inner| File {
                    inner,
                    path: path.to_path_buf(),
                    poisoned: None,
                })
            }
        }

        impl io::Write for File {
            fn write(&mut self, buf: &[u8]) -> io::Result<usize> {
                let (seq, fault) = fs_ctl::before(OpKind::Write);
                if let Some(k) = self.poisoned {
                    fs_ctl::after(seq, OpKind::Write, &self.path, buf.len(), Err(format!("{k:?}")), None);
                    return Err(k.to_io());
                }
                match fault {
                    Some(Fault::Err(k)) => {
                        fs_ctl::after(seq, OpKind::Write, &self.path, buf.len(), Err(format!("{k:?}")), fault);
                        Err(k.to_io())
                    }
                    Some(Fault::ShortThenErr(k)) if buf.len() >= 2 => {
                        let n = buf.len() / 2;
                        let res = io::Write::write_all(&mut self.inner, &buf[..n]).map(|_| n);
                        self.poisoned = Some(k);
                        fs_ctl::after(
                            seq,
                            OpKind::Write,
                            &self.path,
                            buf.len(),
                            res.as_ref().map(|n| *n).map_err(fs_ctl::kind_name),
                            fault,
                        );
                        res
                    }
                    Some(Fault::ShortThenErr(k)) => {
                        fs_ctl::after(seq, OpKind::Write, &self.path, buf.len(), Err(format!("{k:?}")), fault);
                        Err(k.to_io())
                    }
                    None => {
                        let res = io::Write::write(&mut self.inner, buf);
                        fs_ctl::after(
                            seq,
                            OpKind::Write,
                            &self.path,
                            buf.len(),
                            res.as_ref().map(|n| *n).map_err(fs_ctl::kind_name),
                            None,
                        );
                        res
                    }
                }
            }
            fn flush(&mut self) -> io::Result<()> {
                let (seq, fault) = fs_ctl::before(OpKind::Flush);
                if let Some(Fault::Err(k) | Fault::ShortThenErr(k)) = fault {
                    fs_ctl::after(seq, OpKind::Flush, &self.path, 0, Err(format!("{k:?}")), fault);
                    return Err(k.to_io());
                }
                let res = io::Write::flush(&mut self.inner);
                fs_ctl::after(
                    seq,
                    OpKind::Flush,
                    &self.path,
                    0,
                    res.as_ref().map(|_| 0).map_err(fs_ctl::kind_name),
                    None,
                );
                res
            }
        }

        pub fn read_to_string<P: AsRef<Path>>(path: P) -> io::Result<String> {
            let path = path.as_ref();
            let (seq, fault) = fs_ctl::before(OpKind::ReadToString);
            if let Some(Fault::Err(k) | Fault::ShortThenErr(k)) = fault {
                fs_ctl::after(seq, OpKind::ReadToString, path, 0, Err(format!("{k:?}")), fault);
                return Err(k.to_io());
            }
            let res = ::std::fs::read_to_string(path);
            fs_ctl::after(
                seq,
                OpKind::ReadToString,
                path,
                0,
                res.as_ref().map(|s| s.len()).map_err(fs_ctl::kind_name),
                None,
            );
            res
        }

        pub fn write<P: AsRef<Path>, C: AsRef<[u8]>>(path: P, contents: C) -> io::Result<()> {
            let path = path.as_ref();
            let contents = contents.as_ref();
            let (seq, fault) = fs_ctl::before(OpKind::WriteFile);
            match fault {
                Some(Fault::Err(k)) => {
                    fs_ctl::after(seq, OpKind::WriteFile, path, contents.len(), Err(format!("{k:?}")), fault);
                    return Err(k.to_io());
                }
                Some(Fault::ShortThenErr(k)) => {
                    // torn rewrite: the file is truncated and half of the content lands
                    let n = contents.len() / 2;
                    let _ = ::std::fs::write(path, &contents[..n]);
                    fs_ctl::after(seq, OpKind::WriteFile, path, contents.len(), Err(format!("{k:?}")), fault);
                    return Err(k.to_io());
                }
                None => {}
            }
            let res = ::std::fs::write(path, contents);
            fs_ctl::after(
                seq,
                OpKind::WriteFile,
                path,
                contents.len(),
                res.as_ref().map(|_| contents.len()).map_err(fs_ctl::kind_name),
                None,
            );
            res
        }
    }
}

pub mod ide_ctl {
    //! Bookkeeping for the S1 seam. shuttle runs every simulated thread as a coroutine on one OS
    //! thread, so these thread-locals are shared by all simulated threads of one execution.
    use std::any::Any;
    use std::cell::{Cell, RefCell};

    thread_local! {
        /// channel endpoints whose drop was deferred because the owning thread was unwinding
        pub(crate) static DEFERRED: RefCell<Vec<Box<dyn Any>>> = const { RefCell::new(Vec::new()) };
        static THREAD_PANICS: Cell<usize> = const { Cell::new(0) };
        static SPAWNS: Cell<usize> = const { Cell::new(0) };
        static DEFERRED_DROPS: Cell<usize> = const { Cell::new(0) };
    }

    /// Forget leftovers of a previous execution (must be called at the start of each execution).
    pub fn reset() {
        DEFERRED.with(|d| {
            for b in d.borrow_mut().drain(..) {
                std::mem::forget(b);
            }
        });
        THREAD_PANICS.with(|c| c.set(0));
        SPAWNS.with(|c| c.set(0));
        DEFERRED_DROPS.with(|c| c.set(0));
    }
    pub fn thread_panics() -> usize {
        THREAD_PANICS.with(|c| c.get())
    }
    pub fn spawns() -> usize {
        SPAWNS.with(|c| c.get())
    }
    pub fn deferred_drops() -> usize {
        DEFERRED_DROPS.with(|c| c.get())
    }
    pub(crate) fn note_spawn() {
        SPAWNS.with(|c| c.set(c.get() + 1));
    }
    pub(crate) fn note_thread_panic() {
        THREAD_PANICS.with(|c| c.set(c.get() + 1));
    }
    pub(crate) fn defer(b: Box<dyn Any>) {
        DEFERRED_DROPS.with(|c| c.set(c.get() + 1));
        DEFERRED.with(|d| d.borrow_mut().push(b));
    }

    /// Drop the endpoints deferred by an unwinding thread, in their original drop order, with a
    /// scheduling point before each, exactly as a real thread's unwinding would interleave with
    /// the other threads. Must be called by the thread that unwound, after its `catch_unwind`.
    pub fn drain_deferred() {
        let items: Vec<Box<dyn Any>> = DEFERRED.with(|d| std::mem::take(&mut *d.borrow_mut()));
        for b in items {
            shuttle::thread::sleep(std::time::Duration::ZERO);
            drop(b);
        }
        shuttle::thread::sleep(std::time::Duration::ZERO);
    }
}

pub mod std_ide {
    pub use ::std::*;

    pub mod thread {
        pub use ::std::thread::{Result, panicking};

        use crate::ide_ctl;
        use ::std::panic::{AssertUnwindSafe, catch_unwind};
        use ::std::sync::Arc;
        use shuttle::sync::atomic::{AtomicBool, Ordering};

        /// `std::thread::JoinHandle` with `is_finished`, backed by a shuttle task.
        pub struct JoinHandle<T> {
            inner: shuttle::thread::JoinHandle<::std::thread::Result<T>>,
            done: Arc<AtomicBool>,
        }
        impl<T> JoinHandle<T> {
            pub fn join(self) -> ::std::thread::Result<T> {
                match self.inner.join() {
                    Ok(r) => r,
                    Err(e) => Err(e),
                }
            }
            /// A scheduling point: whether the thread has finished is decided by the schedule.
            pub fn is_finished(&self) -> bool {
                self.done.load(Ordering::SeqCst)
            }
        }

        /// `std::thread::spawn` with std's semantics for a panicking thread: the panic is
        /// contained, the thread's channel endpoints are dropped (one scheduling point each) and
        /// `join` returns `Err`.
        pub fn spawn<F, T>(f: F) -> JoinHandle<T>
        where
            F: FnOnce() -> T + Send + 'static,
            T: Send + 'static,
        {
            ide_ctl::note_spawn();
            let done = Arc::new(AtomicBool::new(false));
            let d2 = done.clone();
            let inner = shuttle::thread::spawn(move || {
                let r = catch_unwind(AssertUnwindSafe(f));
                if r.is_err() {
                    ide_ctl::note_thread_panic();
                    ide_ctl::drain_deferred();
                }
                d2.store(true, Ordering::SeqCst);
                r
            });
            JoinHandle { inner, done }
        }
    }

    pub mod sync {
        pub use ::std::sync::*;

        pub mod mpsc {
            pub use ::std::sync::mpsc::{RecvError, SendError, TryRecvError};

            use crate::ide_ctl;
            use ::std::mem::ManuallyDrop;

            pub struct Sender<T: 'static> {
                inner: ManuallyDrop<shuttle::sync::mpsc::Sender<T>>,
            }
            pub struct Receiver<T: 'static> {
                inner: ManuallyDrop<shuttle::sync::mpsc::Receiver<T>>,
            }

            pub fn channel<T: 'static>() -> (Sender<T>, Receiver<T>) {
                let (s, r) = shuttle::sync::mpsc::channel();
                (
                    Sender {
                        inner: ManuallyDrop::new(s),
                    },
                    Receiver {
                        inner: ManuallyDrop::new(r),
                    },
                )
            }

            impl<T: 'static> Sender<T> {
                pub fn send(&self, t: T) -> Result<(), SendError<T>> {
                    self.inner.send(t)
                }
            }
            impl<T: 'static> Clone for Sender<T> {
                fn clone(&self) -> Self {
                    Sender {
                        inner: ManuallyDrop::new((*self.inner).clone()),
                    }
                }
            }
            impl<T: 'static> Receiver<T> {
                pub fn recv(&self) -> Result<T, RecvError> {
                    self.inner.recv()
                }
                pub fn try_recv(&self) -> Result<T, TryRecvError> {
                    self.inner.try_recv()
                }
            }

            // shuttle's endpoints do nothing when dropped while `std::thread::panicking()`, which
            // would leave the peer blocked for ever. Defer the real drop until the unwinding is
            // over (`ide_ctl::drain_deferred`), keeping the order.
            impl<T: 'static> Drop for Sender<T> {
                fn drop(&mut self) {
                    // SAFETY: `inner` is taken exactly once, here.
                    let inner = unsafe { ManuallyDrop::take(&mut self.inner) };
                    if ::std::thread::panicking() {
                        ide_ctl::defer(Box::new(inner));
                    } else {
                        drop(inner);
                    }
                }
            }
            impl<T: 'static> Drop for Receiver<T> {
                fn drop(&mut self) {
                    // SAFETY: `inner` is taken exactly once, here.
                    let inner = unsafe { ManuallyDrop::take(&mut self.inner) };
                    if ::std::thread::panicking() {
                        ide_ctl::defer(Box::new(inner));
                    } else {
                        drop(inner);
                    }
                }
            }
        }
    }
}
