#!/bin/bash
# tools/sweep_all.sh : run every stored seeded change against the check of its (first) property, quick tier, seed 1.
# Writes /verif/seeded/last_sweep.txt (one line per change). Mutates /repo while running (apply -> check -> revert).
out=/verif/seeded/last_sweep.txt
echo "# $(date -u +%FT%TZ) repo HEAD $(git -C /repo rev-parse --short HEAD) verif HEAD $(git -C /verif rev-parse --short HEAD)" > $out
for d in /verif/seeded/*/; do
  id=$(basename $d)
  [ -f $d/patch.diff ] || continue
  prop=$(python3 -c "import json,sys; print(json.load(open('$d/meta.json'))['property'].split('/')[0])")
  /verif/tools/mutrun.sh $id $d/patch.diff $prop 2>&1 | cut -c1-400 >> $out
done
echo "# done $(date -u +%FT%TZ)" >> $out
