#!/bin/bash
# tools/sweep_all.sh : run every stored seeded change (not the behaviour-preserving ones) against the check of its
# property, quick tier, seed 1; where that check is quiet and the property is one of the generated-parser ones, also
# against C08 and C02 (some changes are reported by a neighbouring property's check, see DESIGN §9).
# Writes /verif/seeded/last_sweep.txt (one line per change and check). Mutates /repo while running (apply -> check -> revert).
out=/verif/seeded/last_sweep.txt
echo "# $(date -u +%FT%TZ) repo HEAD $(git -C /repo rev-parse --short HEAD) verif HEAD $(git -C /verif rev-parse --short HEAD)" > $out
for d in /verif/seeded/*/; do
  id=$(basename $d)
  [ -f $d/patch.diff ] || continue
  case $id in benign-*|C02-extra-*) continue;; esac
  prop=$(python3 -c "import json,sys; print(json.load(open('$d/meta.json')).get('property','').split('/')[0])")
  [ -n "$prop" ] || continue
  line=$(/verif/tools/mutrun.sh $id $d/patch.diff $prop 2>&1 | cut -c1-400)
  echo "$line" >> $out
  case "$line" in *"exit=0"*)
    case $prop in C01|C03|C16|C02|C08)
      for q in C08 C02; do [ $q = $prop ] || /verif/tools/mutrun.sh $id $d/patch.diff $q 2>&1 | cut -c1-400 >> $out; done;;
    esac;;
  esac
done
echo "# done $(date -u +%FT%TZ)" >> $out
