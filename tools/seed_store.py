#!/usr/bin/env python3
"""Store a confirmed seeded change under /verif/seeded/<id>/ : patch.diff (applies to /repo HEAD), patch.orig.diff (as delivered),
the demonstration, the agent's description and meta.json."""
import json, os, shutil, subprocess, sys
def sh(cmd, cwd=None):
    return subprocess.run(cmd, shell=True, cwd=cwd, capture_output=True, text=True)
def main():
    sid, prop, src_out, letter, base, confirm_line, detect = sys.argv[1:8]
    neutral = sys.argv[8] if len(sys.argv) > 8 else ""
    dst = f"/verif/seeded/{sid}"
    shutil.rmtree(dst, ignore_errors=True)
    os.makedirs(dst)
    shutil.copy(f"{src_out}/{letter}.diff", f"{dst}/patch.orig.diff")
    # rebase onto the current /repo HEAD
    assert sh("git status --porcelain --untracked-files=no", "/repo").stdout.strip() == "", "/repo dirty"
    r = sh(f"git apply --check {src_out}/{letter}.diff", "/repo")
    if r.returncode == 0:
        shutil.copy(f"{src_out}/{letter}.diff", f"{dst}/patch.diff")
        rebased = False
    else:
        r = sh(f"git apply -3 {src_out}/{letter}.diff && git reset -q && git diff", "/repo")
        open(f"{dst}/patch.diff", "w").write(r.stdout)
        sh("git checkout -q -- . && git reset -q --hard HEAD", "/repo")
        rebased = True
        assert r.stdout.strip(), "rebase produced an empty patch"
    shutil.copytree(f"{src_out}/demo_{letter}", f"{dst}/demo", ignore=shutil.ignore_patterns("build", "work", "target", "*.log"))
    shutil.copy(f"{src_out}/{letter}.md", f"{dst}/description.md")
    head = sh("git rev-parse --short HEAD", "/repo").stdout.strip()
    meta = {
        "id": sid, "property": prop, "origin": "independent sub-agent given only the property text and a scratch worktree",
        "delivered_against_commit": base, "patch_diff_applies_to": head, "rebased_by_3way_apply": rebased,
        "needs_to_manifest": open(f"{src_out}/{letter}.md").read().strip().split("\n")[0:1][0],
        "confirmed": {"how": "tools/confirm_mutants.sh in the agent's scratch worktree at the delivery commit: apply patch, cargo test --workspace (expect 59 pass / 0 fail), run the demonstration (expect failure), revert, run it again (expect success)", "result": confirm_line},
        "detected_by": json.loads(detect),
    }
    if neutral:
        meta["note"] = neutral
    json.dump(meta, open(f"{dst}/meta.json", "w"), indent=1)
    print("stored", dst, "rebased" if rebased else "")
main()
