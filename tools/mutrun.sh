#!/bin/bash
# tools/mutrun.sh <label> <patch> <prop>...   apply a seeded change to /repo, run the given checks, revert.
# Prints one line per property: <label> <prop> exit=<code> <signatures...>
label="$1"; patch="$2"; shift 2
cd /repo || exit 2
if [ -n "$(git status --porcelain --untracked-files=no)" ]; then echo "$label: /repo is dirty, refusing"; exit 2; fi
if ! git apply --check "$patch" 2>/dev/null; then
    if ! git apply -3 "$patch" >/dev/null 2>&1; then echo "$label: patch does not apply"; git checkout -q -- . ; git reset -q --hard HEAD; exit 3; fi
    git reset -q   # keep the change in the working tree only
else
    git apply "$patch"
fi
for p in "$@"; do
    out=$(cd /verif && ./check "$p" 2>&1)
    code=$?
    sigs=$(echo "$out" | grep -E "^  signature:|harness error" | sed 's/^  signature: //' | sort -u | tr '\n' ';' | cut -c1-600)
    echo "$label $p exit=$code $sigs"
done
git -C /repo checkout -q -- .
git -C /repo reset -q --hard HEAD
