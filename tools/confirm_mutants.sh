#!/bin/bash
# Confirm every delivered seeded change in its own scratch worktree (/tmp/mut/<ID>, base = the hook commit d60bb37):
#   with the change: the 59-test suite still passes and the demonstration fails;
#   without it: the demonstration passes.   One line per change.
export CARGO_NET_OFFLINE=true
demo() { # id m  -> runs the demonstration, returns its exit status
    local id=$1 m=$2
    case $id in
        C01) sh OUT/demo_$m/run.sh ;;
        C02) (cd OUT/demo_$m && CARGO_TARGET_DIR=../../target/demo cargo run --offline -j8) ;;
        C03|C08) bash OUT/demo_$m/run.sh ;;
        C15) f=$(ls OUT/demo_$m/*.rs | head -1); n=$(basename $f .rs); cp $f tests/; if [ $m = B ]; then cargo test --offline -j8 --features cli --test $n; else cargo test --offline -j8 --test $n; fi; r=$?; rm -f tests/$n.rs; return $r ;;
        C16) (cd OUT/demo_$m && cargo test --offline -j8) ;;
        C19) cargo build --offline -j8 --features cli,lsp && sh OUT/demo_$m/run.sh ;;
        C20) f=$(ls OUT/demo_$m/*.rs | head -1); n=$(basename $f .rs); cp $f tests/; cargo test --offline -j8 --features cli,lsp --test $n; r=$?; rm -f tests/$n.rs; return $r ;;
    esac
}
for id in "$@"; do
  for m in A B; do
    cd ${MUTROOT:-/tmp/mut}/$id || continue
    [ -f OUT/$m.diff ] || { echo "$id$m: no patch"; continue; }
    git checkout -q -- . ; git apply OUT/$m.diff || { echo "$id$m: patch does not apply to its base"; continue; }
    tests=$(cargo test --workspace --no-fail-fast --offline -j8 2>&1 | grep -E "^test result" | awk '{p+=$4; f+=$6} END {print p"/"f}')
    demo $id $m > ${MUTROOT:-/tmp/mut}/$id.demo_$m.with.log 2>&1; with=$?
    git checkout -q -- .
    demo $id $m > ${MUTROOT:-/tmp/mut}/$id.demo_$m.without.log 2>&1; without=$?
    echo "$id$m: suite(pass/fail)=$tests demo_with_change_exit=$with demo_without_change_exit=$without"
  done
done
