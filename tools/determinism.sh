#!/bin/bash
# tools/determinism.sh <PROP> <seeds...> : run the quick check twice per seed at 16 workers and once at 5 workers;
# compare the evidence files with the timing fields removed (run_digest = XOR over the per-run trace hashes).
prop=$1; shift
strip() { python3 -c "
import json,sys
e=json.load(open('/verif/evidence/$prop.json'))
e.pop('wall_s',None)
c=e['coverage']
for k in list(c):
    if 'per_hour' in k: c.pop(k)
def scrub(x):
    if isinstance(x,dict):
        return {k:scrub(v) for k,v in x.items() if 'per_hour' not in k and k not in ('wall_s','reference_sessions_run')}
    if isinstance(x,list): return [scrub(v) for v in x]
    return x
print(json.dumps(scrub(e),sort_keys=True))"; }
cd /verif
for seed in "$@"; do
  VERIF_SEED=$seed VERIF_WORKERS=16 ./check $prop >/dev/null 2>&1; a=$(strip)
  VERIF_SEED=$seed VERIF_WORKERS=16 ./check $prop >/dev/null 2>&1; b=$(strip)
  VERIF_SEED=$seed VERIF_WORKERS=5 ./check $prop >/dev/null 2>&1; c=$(strip)
  if [ "$a" = "$b" ] && [ "$a" = "$c" ]; then echo "$prop seed=$seed deterministic (2x16 workers, 1x5 workers): digest $(echo "$a" | md5sum | cut -c1-12)"; else echo "$prop seed=$seed DIFFERS"; echo "$a" > /tmp/det_a.json; echo "$b" > /tmp/det_b.json; echo "$c" > /tmp/det_c.json; fi
done
